(* C04 protocol model WITH VALUES (LazyMap.v, repaired code): every operation of an execution has a linearization
   point inside its interval (trace invariant [TI]):
     Store             the fullyLinked step (new node) or the value write under the node lock (existing node);
     LoadOrStore(Lazy) (v, false): the fullyLinked step of the node it linked (the constructor has run exactly once
                       then, never before); (x, true): it saw the node unmarked, later fully linked, and read x without
                       a lock: the reading step if the node is still unmarked then, else the moment before the
                       marking step (the marker knows the node is fully linked; marked => value frozen);
     LoadAndDelete ok  its marking step; the value it returns later is the value at that step (marked => frozen);
     Delete true       its marking step;
     Load (x, true)    the reading step if the node is still unmarked then, else the moment before the marking step;
     (0, false) / false   a moment inside the operation at which the key is absent (hindsight). *)
From VF Require Import Common.Base Common.Hist C04.Spec C04.LazyMap C04.ProofsLazyMap C04.LzmReach C04.LzmLock C04.LzmAbs
  C04.LzmHist C04.LzmTrace.
Local Open Scope Z_scope.

Definition op_key (o : opk) : Z :=
  match o with MStore k _ | MLoad k | MLoadAndDelete k | MLoadOrStore k _ | MLoadOrStoreLazy k _ | MDelete k => k end.

(* the operation of the O program counters; the R program counters serve LoadAndDelete and Delete *)
Definition oop (k v : Z) (lz : bool) : opk := if lz then MLoadOrStoreLazy k v else MLoadOrStore k v.
Definition is_del (o : opk) (k : Z) : Prop := o = MLoadAndDelete k \/ o = MDelete k.
(* how often the constructor has run once the new node exists *)
Definition ins_cnt (lz : bool) : nat := if lz then 1%nat else 0%nat.

Lemma is_del_key o k : is_del o k -> op_key o = k.
Proof. intros [-> | ->]; reflexivity. Qed.

Definition pc_for (h : heap) (p : pc) (o : opk) : Prop :=
  match p with
  | SFind k v _ | SLock k v _ _ | SValid k v _ _ | SLink k v _ _ | SFull k v _ _ | SUnlock k v _ _
  | SLockN k v _ | SChkM k v _ | SWaitL k v _ | SWrite k v _ | SUnlockN k v _ _ => o = MStore k v
  | RFind k _ _ | RCheck k _ _ | RLockV k _ _ | RMark k _ _ | RLockP k _ _ | RValid k _ _ | RUnlink k _ _
  | RUnlockV k _ _ | RUnlockP k _ _ _ => is_del o k
  | RGiveUp v | RRead v => is_del o (ky h v)
  | OFind k v lz n _ | OChkM k v lz n _ | OWaitL k v lz n _ | ORead k v lz n _ | OLock k v lz n _ _
  | OValid k v lz n _ _ => o = oop k v lz /\ n = 0%nat
  | OCall k v lz n _ _ => o = oop k v lz /\ n = 0%nat /\ lz = true
  | OLink k v lz n _ _ | OFull k v lz n _ _ => o = oop k v lz /\ n = ins_cnt lz
  | OUnlock k v lz n _ ok => o = oop k v lz /\ n = (if ok then ins_cnt lz else 0%nat)
  | LFind k _ | LFlags k _ => o = MLoad k
  | LRead c => o = MLoad (ky h c)
  | Idle | Done _ _ | SChkM0 _ _ _ | SWrite0 _ _ _ => False
  end.

(* program counters before the operation's linearization step *)
Definition pre_lin (p : pc) : bool :=
  match p with
  | SFind _ _ _ | SLock _ _ _ _ | SValid _ _ _ _ | SLink _ _ _ _ | SFull _ _ _ _
  | SLockN _ _ _ | SChkM _ _ _ | SWaitL _ _ _ | SWrite _ _ _ => true
  | SUnlock _ _ _ ok | SUnlockN _ _ _ ok => negb ok
  | RFind _ _ None | RCheck _ _ _ | RLockV _ _ _ | RMark _ _ _ | RGiveUp _ => true
  | LFind _ _ | LFlags _ _ | LRead _ => true
  | OFind _ _ _ _ _ | OChkM _ _ _ _ _ | OWaitL _ _ _ _ _ | ORead _ _ _ _ _ | OLock _ _ _ _ _ _ | OValid _ _ _ _ _ _
  | OCall _ _ _ _ _ _ | OLink _ _ _ _ _ _ | OFull _ _ _ _ _ _ => true
  | OUnlock _ _ _ _ _ ok => negb ok
  | _ => false
  end.

Definition mpt (e : entry) : list nat := if Nat.odd (e_pt e) then [Nat.div2 (e_pt e)] else [].
Definition lpl (c : option pnd) : list nat :=
  match c with Some pd => match p_lp pd with Some m => [m] | None => [] end | None => [] end.

(* ---------- association lists ---------- *)
Lemma fm_get_in k x (l : list (Z * Z)) : fm_get k l = Some x -> In (k, x) l.
Proof.
  unfold fm_get. destruct (find (fun p => fst p =? k) l) as [[k' v']|] eqn:F; [|discriminate].
  simpl. intros E. inversion E; subst. apply find_some in F as [A B]. simpl in B. apply Z.eqb_eq in B. now subst.
Qed.

Lemma fm_get_none k (l : list (Z * Z)) : fm_get k l = None -> forall v, ~ In (k, v) l.
Proof.
  unfold fm_get. destruct (find (fun p => fst p =? k) l) eqn:F; [discriminate|]. intros _ v Hin.
  apply (find_none _ _ F) in Hin. simpl in Hin. rewrite Z.eqb_refl in Hin. discriminate.
Qed.

Definition obsfact (o : opk) (v : Z) (ok : bool) (h : heap) : Prop :=
  match o with
  | MLoad k => if ok then In (k, v) (absmap h) else v = 0 /\ absentk k h
  | MLoadAndDelete k => ok = false /\ v = 0 /\ absentk k h
  | MLoadOrStore k _ | MLoadOrStoreLazy k _ => ok = true /\ In (k, v) (absmap h)
  | MDelete k => ok = false /\ absentk k h
  | MStore _ _ => False
  end.

(* the ghost counter reported by a LoadOrStoreLazy: the constructor ran once iff the operation stored *)
Definition calls_ok (o : opk) (calls : nat) (ok : bool) : Prop :=
  match o with MLoadOrStoreLazy _ _ => calls = (if ok then 0 else 1)%nat | _ => True end.

Lemma obs_ok_fact s o v ok : Inv s -> Inv3 s -> is_mut o ok = false ->
  (obs_ok o v ok (hp s) = true <-> obsfact o v ok (hp s)).
Proof.
  intros I1 I3 NM.
  assert (LOS : forall k, ok = true ->
            (match fm_get k (absmap (hp s)) with Some x => ok && (x =? v) | None => false end = true <->
             ok = true /\ In (k, v) (absmap (hp s)))).
  { intros k ->. destruct (fm_get k (absmap (hp s))) as [x|] eqn:G; cbn [andb].
    - pose proof (fm_get_in _ _ _ G) as Hx. rewrite Z.eqb_eq. split; [intros <-; auto|].
      intros [_ Hv]. exact (absmap_fun s I1 I3 k x v Hx Hv).
    - pose proof (fm_get_none _ _ G) as A. split; [discriminate|]. intros [_ Hv]. exfalso. exact (A v Hv). }
  destruct o as [k v0|k|k|k v0|k v0|k]; cbn [is_mut] in NM; cbn [obs_ok obsfact].
  - discriminate.
  - destruct (fm_get k (absmap (hp s))) as [x|] eqn:G.
    + pose proof (fm_get_in _ _ _ G) as Hx. destruct ok; cbn [andb negb].
      * rewrite Z.eqb_eq. split; [intros <-; exact Hx|]. intros Hv. exact (absmap_fun s I1 I3 k x v Hx Hv).
      * split; [discriminate|]. intros [_ A]. exfalso. exact (A x Hx).
    + pose proof (fm_get_none _ _ G) as A. destruct ok; cbn [andb negb].
      * split; [discriminate|]. intros Hv. exfalso. exact (A v Hv).
      * rewrite Z.eqb_eq. split; [intros ->; auto|tauto].
  - subst ok. destruct (fm_get k (absmap (hp s))) as [x|] eqn:G.
    + pose proof (fm_get_in _ _ _ G) as Hx. split; [discriminate|]. intros (_ & _ & A). exfalso. exact (A x Hx).
    + pose proof (fm_get_none _ _ G) as A. cbn [andb negb]. rewrite Z.eqb_eq. split; [intros ->; auto|tauto].
  - apply LOS. now destruct ok.
  - apply LOS. now destruct ok.
  - subst ok. destruct (fm_get k (absmap (hp s))) as [x|] eqn:G.
    + pose proof (fm_get_in _ _ _ G) as Hx. split; [discriminate|]. intros (_ & A). exfalso. exact (A x Hx).
    + pose proof (fm_get_none _ _ G) as A. cbn [negb]. tauto.
Qed.

Lemma find_obs_some (f : heap -> bool) (hs : list heap) lo d j : (lo < j <= lo + d)%nat -> f (nth j hs []) = true ->
  exists m, find_obs f hs lo d = Some m /\ (lo < m <= lo + d)%nat /\ f (nth m hs []) = true.
Proof.
  induction d as [|d IH]; intros L F; [lia|]. cbn [find_obs].
  match goal with |- context [if ?b then _ else _] => destruct b eqn:E end.
  - exists (lo + Datatypes.S d)%nat. split; [reflexivity|split; [lia|exact E]].
  - destruct (Nat.eq_dec j (lo + Datatypes.S d)) as [->|N]; [congruence|].
    destruct (IH ltac:(lia) F) as (m & A & B & C). exists m. split; [exact A|split; [lia|exact C]].
Qed.

Lemma odd_2m1 m : Nat.odd (2 * m + 1) = true.
Proof. rewrite Nat.add_1_r, Nat.odd_succ, Nat.even_mul. reflexivity. Qed.
Lemma odd_2m m : Nat.odd (2 * m) = false.
Proof. rewrite Nat.odd_mul. reflexivity. Qed.
Lemma div2_2m1 m : Nat.div2 (2 * m + 1) = m.
Proof. rewrite Nat.add_1_r. apply Nat.div2_succ_double. Qed.

Section Linz.
Variable progs : list (list opk).
Variable sched : list nat.
Notation ST := (st progs sched).
Notation GR := (gr progs sched).
Notation TID := (tidx sched).

(* step m is the linearization step of operation o of thread t; w = the victim of a LoadAndDelete *)
Definition linstep (m t : nat) (o : opk) (w : option nat) : Prop :=
  (m < length sched)%nat /\ TID m = t /\
  match o with
  | MStore k v => (exists pred nn, pc_of (ST m) t = SFull k v pred nn) \/ (exists c, pc_of (ST m) t = SWrite k v c)
  | MLoadAndDelete k | MDelete k =>
      exists pred x, pc_of (ST m) t = RMark k pred x /\ mkd (hp (ST m)) x = false /\ w = Some x
  | MLoadOrStore k v => exists n pred nn, pc_of (ST m) t = OFull k v false n pred nn
  | MLoadOrStoreLazy k v => exists n pred nn, pc_of (ST m) t = OFull k v true n pred nn
  | MLoad _ => False
  end.

(* what a mutator returns *)
Definition mutres (o : opk) (w : option nat) (m : nat) (v : Z) (ok : bool) : Prop :=
  match o with
  | MStore _ _ => True
  | MLoadAndDelete _ => ok = true /\ exists x, w = Some x /\ v = vl (hp (ST m)) x
  | MDelete _ => ok = true
  | MLoadOrStore _ v0 | MLoadOrStoreLazy _ v0 => ok = false /\ v = v0
  | MLoad _ => False
  end.

(* hindsight bookkeeping of the traversals *)
Definition hind_core (n a : nat) (p : pc) : Prop :=
  match p with
  | RFind _ pred None | LFind _ pred => exists m, (a < m <= n)%nat /\ reach (hp (ST m)) 0 pred
  | RCheck _ _ v | RLockV _ _ v | RMark _ _ v | LFlags _ v => exists m, (a < m <= n)%nat /\ reach (hp (ST m)) 0 v
  | OWaitL _ _ _ _ c => exists j, (a < j <= n)%nat /\ valid (hp (ST j)) c /\ mkd (hp (ST j)) c = false
  | ORead _ _ _ _ c => (exists j, (a < j <= n)%nat /\ valid (hp (ST j)) c /\ mkd (hp (ST j)) c = false) /\
                       lkd (hp (ST n)) c = true
  | _ => True
  end.

Record pend_ok (n t : nat) (p : pc) (pd : pnd) : Prop := {
  po_inv : (p_inv pd < n)%nat;
  po_for : pc_for (hp (ST n)) p (p_op pd);
  po_lp : match p_lp pd with
          | None => pre_lin p = true
          | Some m => pre_lin p = false /\ (p_inv pd < m < n)%nat /\ linstep m t (p_op pd) (lad_victim p)
          end;
  po_hind : hind_core n (p_inv pd) p;
  po_giveup : forall v, p = RGiveUp v ->
                exists j, (p_inv pd < j <= n)%nat /\ absentk (op_key (p_op pd)) (hp (ST j));
  po_lread : forall c, p = LRead c ->
               (1 <= c)%nat /\ exists j, (p_inv pd < j <= n)%nat /\ valid (hp (ST j)) c /\ live (get (hp (ST j)) c) = true }.

Definition entry_ok (n : nat) (e : entry) : Prop :=
  exists a b o calls v ok, e_op e = Build_op (N.of_nat a) (N.of_nat b) (call_of o) (ret_of o calls v ok) /\
    calls_ok o calls ok /\ (a < b < n)%nat /\
    ((exists m, e_pt e = (2 * m)%nat /\ (a < m <= b)%nat /\ obsfact o v ok (hp (ST m))) \/
     (exists m t w, e_pt e = (2 * m + 1)%nat /\ (a < m <= b)%nat /\ linstep m t o w /\ mutres o w m v ok)).

Record TI (n : nat) : Prop := {
  ti_len : length (g_cur (GR n)) = length (ths (ST n));
  ti_thr : forall t th, nth_error (ths (ST n)) t = Some th ->
             match nth t (g_cur (GR n)) None with
             | None => resting (at_pc th) = true
             | Some pd => resting (at_pc th) = false /\ pend_ok n t (at_pc th) pd
             end;
  ti_log : forall e, In e (g_log (GR n)) -> entry_ok n e;
  ti_perm : Permutation (flat_map mpt (g_log (GR n)) ++ flat_map lpl (g_cur (GR n))) (g_chg (GR n));
  ti_chg_lt : forall m, In m (g_chg (GR n)) -> (m < n)%nat;
  ti_chg_nodup : NoDup (g_chg (GR n));
  ti_chg_frame : forall m, (m < n)%nat -> ~ In m (g_chg (GR n)) ->
                   absmap (hp (ST (Datatypes.S m))) = absmap (hp (ST m)) }.

Lemma entry_ok_mono n e : entry_ok n e -> entry_ok (Datatypes.S n) e.
Proof.
  intros (a & b & o & calls & v & ok & E & CK & L & X). exists a, b, o, calls, v, ok.
  split; [exact E|split; [exact CK|split; [lia|exact X]]].
Qed.

Lemma hind_core_mono n a p : hind_core n a p -> hind_core (Datatypes.S n) a p.
Proof.
  destruct p; simpl; auto; try (intros (m & L & R); exists m; split; [lia|exact R]).
  - destruct mk; auto. intros (m & L & R); exists m; split; [lia|exact R].
  - intros [(m & L & R) K]. split; [exists m; split; [lia|exact R]|]. apply (st_linked progs sched n); [lia|exact K].
Qed.

(* threads that do not move *)
Lemma pend_other n t p pd : pc_ok (hp (ST n)) p -> pend_ok n t p pd -> pend_ok (Datatypes.S n) t p pd.
Proof.
  intros P [PI PF PL PH PG PR]. split.
  - lia.
  - destruct p; cbn [pc_for pc_ok] in *; auto;
      (rewrite (st_key progs sched n (Datatypes.S n)); [exact PF|lia|exact P]).
  - destruct (p_lp pd); [|exact PL]. destruct PL as (A & B & C). split; [exact A|split; [lia|exact C]].
  - now apply hind_core_mono.
  - intros v Ev. destruct (PG v Ev) as (j & Lj & A). exists j. split; [lia|exact A].
  - intros c Ec. destruct (PR c Ec) as (Pc & j & Lj & A). split; [exact Pc|]. exists j. split; [lia|exact A].
Qed.

(* ---------- hindsight, packaged for the traversals ---------- *)
Lemma hind_next n a pred c : (exists m, (a < m <= n)%nat /\ reach (hp (ST m)) 0 pred) ->
  nx (hp (ST n)) pred = Some c -> exists m, (a < m <= Datatypes.S n)%nat /\ reach (hp (ST m)) 0 c.
Proof.
  intros (m & L & R) E. destruct (hindsight progs sched m n pred ltac:(lia) R) as (m' & L' & R' & E').
  exists m'. split; [lia|]. eapply reach_snoc; [exact R'|congruence].
Qed.

Lemma hind_gap n a pred k c : (exists m, (a < m <= n)%nat /\ reach (hp (ST m)) 0 pred) ->
  (pred <> 0%nat -> ky (hp (ST n)) pred < k) -> nx (hp (ST n)) pred = c ->
  match c with Some x => k < ky (hp (ST n)) x | None => True end ->
  exists j, (a < j <= n)%nat /\ absentk k (hp (ST j)).
Proof.
  intros (m & L & R) Kp E Kc. destruct (hindsight progs sched m n pred ltac:(lia) R) as (m' & L' & R' & E').
  exists m'. split; [lia|]. pose proof (reach0_valid progs sched m' pred R') as Vp.
  apply (absent_gap (ST m') (st_inv progs sched m') (st_inv3 progs sched m') k pred c R').
  - intros N. rewrite <- (st_key progs sched m' n pred ltac:(lia) Vp). now apply Kp.
  - congruence.
  - destruct c as [x|]; [|exact I]. rewrite E in E'.
    destruct (inv_ord _ (st_inv progs sched m') pred x Vp E') as (_ & Vx & _).
    now rewrite <- (st_key progs sched m' n x ltac:(lia) Vx).
Qed.

Lemma hind_dead n a v k : (exists m, (a < m <= n)%nat /\ reach (hp (ST m)) 0 v) -> (a < n)%nat ->
  (1 <= v)%nat -> ky (hp (ST n)) v = k -> live (get (hp (ST n)) v) = false ->
  exists j, (a < j <= n)%nat /\ absentk k (hp (ST j)).
Proof.
  intros (m & L & R) Ln Pv K Lv. pose proof (reach0_valid progs sched m v R) as Vm.
  destruct (mkd (hp (ST n)) v) eqn:M.
  - destruct (absent_since_marked progs sched m n v k ltac:(lia) Pv R) as (j & Lj & A); auto.
    + rewrite <- K. symmetry. apply st_key; [lia|exact Vm].
    + exists j. split; [lia|exact A].
  - exists n. split; [lia|].
    assert (Vn : valid (hp (ST n)) v) by (apply (st_valid progs sched m); [lia|exact Vm]).
    apply (absent_unique (ST n) (st_inv progs sched n) (st_inv3 progs sched n) k v Pv); auto.
    apply (i3_r1 _ (st_inv3 progs sched n) v Vn M).
Qed.

(* a node seen live at moment j whose value x is read at moment n >= j: at some moment in between the node
   was live with value x *)
Lemma hind_value j n c : (j <= n)%nat -> valid (hp (ST j)) c -> live (get (hp (ST j)) c) = true ->
  exists m, (j <= m <= n)%nat /\ live (get (hp (ST m)) c) = true /\ vl (hp (ST m)) c = vl (hp (ST n)) c.
Proof.
  intros L V Lj. apply live_flags in Lj as [Lk Mk].
  destruct (mkd (hp (ST n)) c) eqn:Mn.
  - destruct (mark_step progs sched j n c L V Mk Mn) as (m & Lm & M0 & M1 & _ & Ev).
    exists m. split; [lia|split].
    + apply live_flags. split; [apply (st_linked progs sched j); [lia|exact Lk]|exact M0].
    + rewrite <- Ev. symmetry. apply st_frozen; [lia|exact M1].
  - exists n. split; [lia|split; [|reflexivity]]. apply live_flags.
    split; [apply (st_linked progs sched j); [lia|exact Lk]|exact Mn].
Qed.

(* a node seen unmarked at moment j, seen fully linked at moment n >= j, whose value x is read at moment n: at some
   moment in between the node was live with value x *)
Lemma hind_value2 j n c : (j <= n)%nat -> valid (hp (ST j)) c -> mkd (hp (ST j)) c = false -> lkd (hp (ST n)) c = true ->
  exists m, (j <= m <= n)%nat /\ live (get (hp (ST m)) c) = true /\ vl (hp (ST m)) c = vl (hp (ST n)) c.
Proof.
  intros L V Mk Lk.
  destruct (mkd (hp (ST n)) c) eqn:Mn.
  - destruct (mark_step progs sched j n c L V Mk Mn) as (m & Lm & M0 & M1 & _ & Ev).
    exists m. split; [lia|split].
    + apply live_flags. split; [|exact M0].
      apply (st_mark_linked progs sched m c); auto. apply (st_valid progs sched j); [lia|exact V].
    + rewrite <- Ev. symmetry. apply st_frozen; [lia|exact M1].
  - exists n. split; [lia|split; [|reflexivity]]. apply live_flags. auto.
Qed.

(* ---------- one step of the acting thread ---------- *)
Section Act.
Variables (n t : nat) (th : thr) (pd : pnd).
Hypothesis Ln : (n < length sched)%nat.
Hypothesis Et : TID n = t.
Hypothesis E : nth_error (ths (ST n)) t = Some th.
Hypothesis B : resting (at_pc th) = false.
Hypothesis PO : pend_ok n t (at_pc th) pd.

Let h := hp (ST n).
Let I1 := st_inv progs sched n.
Let IR := st_invR progs sched n.
Let I3 := st_inv3 progs sched n.

Lemma act_next : pc_of (ST (Datatypes.S n)) t = snd (action true h t (at_pc th)) /\
                 hp (ST (Datatypes.S n)) = fst (action true h t (at_pc th)).
Proof. rewrite (st_S progs sched n Ln), Et. destruct (step_at true (ST n) t th E B) as [A1 A2]. auto. Qed.

Lemma pc_of_n : pc_of (ST n) t = at_pc th.
Proof. unfold pc_of. now rewrite E. Qed.

Lemma lp_none_pre : pre_lin (at_pc th) = true -> p_lp pd = None.
Proof.
  intros X. destruct PO as [_ _ PL _ _ _]. destruct (p_lp pd); [|reflexivity]. destruct PL as [Y _]. congruence.
Qed.

Lemma lp_some_post : pre_lin (at_pc th) = false ->
  exists m, p_lp pd = Some m /\ (p_inv pd < m < n)%nat /\ linstep m t (p_op pd) (lad_victim (at_pc th)).
Proof.
  intros X. destruct PO as [_ _ PL _ _ _]. destruct (p_lp pd) as [m|]; [|congruence]. exists m. tauto.
Qed.

Lemma key_next x : valid h x -> ky (hp (ST (Datatypes.S n))) x = ky h x.
Proof. intros V. apply st_key; [lia|exact V]. Qed.

Ltac boring PF :=
  intros _; split; [exact PF|]; split; [split; [reflexivity|intros X; first [reflexivity|discriminate X]]|];
  split; [exact I|]; split; intros ? X; discriminate X.

Lemma trans_busy : resting (snd (action true h t (at_pc th))) = false ->
  let p' := snd (action true h t (at_pc th)) in
  pc_for (hp (ST (Datatypes.S n))) p' (p_op pd) /\
  (if lin_pc h (at_pc th) then p_lp pd = None /\ pre_lin p' = false /\ linstep n t (p_op pd) (lad_victim p')
   else pre_lin p' = pre_lin (at_pc th) /\ (pre_lin (at_pc th) = false -> lad_victim p' = lad_victim (at_pc th))) /\
  hind_core (Datatypes.S n) (p_inv pd) p' /\
  (forall v, p' = RGiveUp v ->
     exists j, (p_inv pd < j <= Datatypes.S n)%nat /\ absentk (op_key (p_op pd)) (hp (ST j))) /\
  (forall c, p' = LRead c -> (1 <= c)%nat /\
     exists j, (p_inv pd < j <= Datatypes.S n)%nat /\ valid (hp (ST j)) c /\ live (get (hp (ST j)) c) = true).
Proof.
  destruct (inv_pcs _ I1 t th E) as [P W]. pose proof (invr_flags _ IR t th E) as F.
  pose proof lp_none_pre as LPN. pose proof pc_of_n as PCN. pose proof key_next as KEY.
  destruct PO as [PI PF PL PH PG PR].
  fold h in P, W, F, PF. pose proof (inv_ord _ I1) as O. fold h in O.
  destruct (at_pc th) eqn:Ep; try discriminate B; cbn [action]; cbv zeta; cbn [pc_for] in PF.
  - (* SFind *)
    destruct (nx h pred) as [c|]; cbn [snd]; [|boring PF].
    destruct (ky h c <? k); cbn [snd]; [boring PF|].
    destruct (ky h c =? k); boring PF.
  - (* SLock *) destruct (acquire h t pred); cbn [snd]; boring PF.
  - (* SValid *) match goal with |- context [if ?b then _ else _] => destruct b end; cbn [snd]; boring PF.
  - (* SLink *) boring PF.
  - (* SFull *) intros _. split; [exact PF|]. split; [|split; [exact I|split; intros ? X; discriminate X]].
    cbn [lin_pc snd pre_lin negb lad_victim]. split; [now apply LPN|split; [reflexivity|]].
    split; [exact Ln|split; [exact Et|]]. rewrite PF. left. exists pred, nn. exact PCN.
  - (* SUnlock *) destruct ok; cbn [snd]; [discriminate|]. boring PF.
  - (* SLockN *) destruct (acquire h t c); cbn [snd]; boring PF.
  - (* SChkM *) destruct (mkd h c); cbn [snd]; boring PF.
  - (* SWaitL *) destruct (lkd h c); cbn [snd]; boring PF.
  - (* SWrite *) intros _. split; [exact PF|]. split; [|split; [exact I|split; intros ? X; discriminate X]].
    cbn [lin_pc snd pre_lin negb lad_victim]. split; [now apply LPN|split; [reflexivity|]].
    split; [exact Ln|split; [exact Et|]]. rewrite PF. right. exists c. exact PCN.
  - (* SUnlockN *) destruct ok; cbn [snd]; [discriminate|]. boring PF.
  - (* SChkM0 *) contradiction.
  - (* SWrite0 *) contradiction.
  - (* RFind *) cbn [pc_ok] in P. destruct P as [[V K] M]. destruct mk as [v|].
    + destruct (nx h pred) as [c|]; cbn [snd]; [|boring PF].
      destruct (ky h c <? k); cbn [snd]; [boring PF|].
      destruct (ky h c =? k); [|boring PF].
      destruct (Nat.eqb c v); boring PF.
    + cbn [hind_core] in PH. destruct (nx h pred) as [c|] eqn:En; cbn [snd]; [|discriminate].
      destruct (ky h c <? k); cbn [snd].
      * intros _. split; [exact PF|split; [split; [reflexivity|discriminate]|split; [|split; intros ? X; discriminate X]]].
        cbn [hind_core]. eapply hind_next; eauto.
      * destruct (ky h c =? k); cbn [snd]; [|discriminate].
        intros _. split; [exact PF|split; [split; [reflexivity|discriminate]|split; [|split; intros ? X; discriminate X]]].
        cbn [hind_core]. eapply hind_next; eauto.
  - (* RCheck *) cbn [hind_core] in PH. destruct (lkd h v && negb (mkd h v)); cbn [snd]; [|discriminate].
    intros _. split; [exact PF|split; [split; [reflexivity|discriminate]|split; [|split; intros ? X; discriminate X]]].
    cbn [hind_core]. destruct PH as (m & Lm & R). exists m. split; [lia|exact R].
  - (* RLockV *) cbn [hind_core] in PH. destruct (acquire h t v); cbn [snd]; intros _;
      (split; [exact PF|split; [split; [reflexivity|discriminate]|split; [|split; intros ? X; discriminate X]]]);
      cbn [hind_core]; destruct PH as (m & Lm & R); exists m; (split; [lia|exact R]).
  - (* RMark *) cbn [hind_core] in PH. cbn [pc_ok] in P. destruct P as [[V K] (Pv & Vv & Kv)].
    cbn [lin_pc]. destruct (mkd h v) eqn:Em; cbn [snd negb].
    + intros _. split; [|split; [split; [reflexivity|discriminate]|split; [exact I|split]]].
      * cbn [pc_for]. rewrite (KEY v Vv), Kv. exact PF.
      * intros v0 Ev. inversion Ev; subst v0. rewrite (is_del_key _ _ PF).
        destruct (hind_dead n (p_inv pd) v k PH PI Pv Kv) as (j & Lj & A).
        { apply live_false. now right. }
        exists j. split; [lia|exact A].
      * intros ? X. discriminate X.
    + intros _. split; [exact PF|split; [|split; [exact I|split; intros ? X; discriminate X]]].
      cbn [pre_lin lad_victim]. split; [now apply LPN|split; [reflexivity|]]. split; [exact Ln|split; [exact Et|]].
      destruct PF as [PF|PF]; rewrite PF; exists pred, v; (split; [exact PCN|split; [exact Em|reflexivity]]).
  - (* RLockP *) destruct (acquire h t pred); cbn [snd]; boring PF.
  - (* RValid *) match goal with |- context [if ?b then _ else _] => destruct b end; cbn [snd]; boring PF.
  - (* RUnlink *) boring PF.
  - (* RUnlockV *) boring PF.
  - (* RUnlockP *) cbn [pc_ok] in P. destruct P as [[V K] (Pv & Vv & Kv)]. destruct ok; cbn [snd]; [|boring PF].
    intros _. split; [cbn [pc_for]; rewrite (KEY v Vv), Kv; exact PF|].
    split; [split; [reflexivity|reflexivity]|]. split; [exact I|split; intros ? X; discriminate X].
  - (* RGiveUp *) discriminate.
  - (* RRead *) discriminate.
  - (* LFind *) cbn [hind_core] in PH. destruct (nx h pred) as [c|] eqn:En; cbn [snd]; [|discriminate].
    destruct (ky h c <? k); cbn [snd].
    + intros _. split; [exact PF|split; [split; [reflexivity|discriminate]|split; [|split; intros ? X; discriminate X]]].
      cbn [hind_core]. eapply hind_next; eauto.
    + destruct (ky h c =? k); cbn [snd]; [|discriminate].
      intros _. split; [exact PF|split; [split; [reflexivity|discriminate]|split; [|split; intros ? X; discriminate X]]].
      cbn [hind_core]. eapply hind_next; eauto.
  - (* LFlags *) cbn [pc_ok] in P. destruct P as (Pc & Vc & Kc).
    destruct (lkd h c && negb (mkd h c)) eqn:El; cbn [snd]; [|discriminate].
    intros _. split; [cbn [pc_for]; rewrite (KEY c Vc); congruence|].
    split; [split; [reflexivity|discriminate]|]. split; [exact I|split; [intros ? X; discriminate X|]].
    intros c0 Ec. inversion Ec; subst c0. split; [exact Pc|]. exists n. split; [lia|split; [exact Vc|exact El]].
  - (* LRead *) discriminate.
  - (* OFind *)
    destruct (nx h pred) as [c|]; cbn [snd]; [|boring PF].
    destruct (ky h c <? k); cbn [snd]; [boring PF|].
    destruct (ky h c =? k); boring PF.
  - (* OChkM *) cbn [pc_ok] in P. destruct P as (Pc & Vc & Kc). destruct (mkd h c) eqn:Em; cbn [snd]; [boring PF|].
    intros _. split; [exact PF|split; [split; [reflexivity|discriminate]|split; [|split; intros ? X; discriminate X]]].
    cbn [hind_core]. exists n. split; [lia|split; [exact Vc|exact Em]].
  - (* OWaitL *) cbn [hind_core] in PH. destruct (lkd h c) eqn:El; cbn [snd].
    + intros _. split; [exact PF|split; [split; [reflexivity|discriminate]|split; [|split; intros ? X; discriminate X]]].
      cbn [hind_core]. destruct PH as (j & Lj & A). split; [exists j; split; [lia|exact A]|].
      apply (st_linked progs sched n); [lia|exact El].
    + intros _. split; [exact PF|split; [split; [reflexivity|discriminate]|split; [|split; intros ? X; discriminate X]]].
      cbn [hind_core]. destruct PH as (j & Lj & A). exists j. split; [lia|exact A].
  - (* ORead *) discriminate.
  - (* OLock *) destruct (acquire h t pred); cbn [snd]; boring PF.
  - (* OValid *) destruct PF as [PF1 PF2].
    match goal with |- context [if ?b then _ else _] => destruct b end; cbn [snd]; [destruct lz|];
      intros _; (split; [cbn [pc_for ins_cnt]; auto|]); (split; [split; [reflexivity|discriminate]|]);
      (split; [exact I|split; intros ? X; discriminate X]).
  - (* OCall *) destruct PF as (PF1 & PF2 & PF3). cbn [snd]. intros _. split; [cbn [pc_for]; split; [exact PF1|now subst]|].
    split; [split; [reflexivity|discriminate]|]. split; [exact I|split; intros ? X; discriminate X].
  - (* OLink *) boring PF.
  - (* OFull *) intros _. split; [exact PF|]. split; [|split; [exact I|split; intros ? X; discriminate X]].
    cbn [lin_pc snd pre_lin negb lad_victim]. split; [now apply LPN|split; [reflexivity|]].
    split; [exact Ln|split; [exact Et|]]. destruct PF as [PF _]. rewrite PF.
    destruct lz; cbn [oop]; exists n0, pred, nn; exact PCN.
  - (* OUnlock *) destruct ok; cbn [snd]; [discriminate|]. boring PF.
Qed.

Definition done_goal (calls : nat) (v : Z) (ok : bool) : Prop :=
  entry_ok (Datatypes.S n) (mk_entry pd calls v ok n (g_hs (GR n))) /\
  mpt (mk_entry pd calls v ok n (g_hs (GR n))) = lpl (Some pd).

Lemma done_mut m w calls v ok : p_lp pd = Some m -> (p_inv pd < m < n)%nat -> linstep m t (p_op pd) w ->
  is_mut (p_op pd) ok = true -> mutres (p_op pd) w m v ok -> calls_ok (p_op pd) calls ok -> done_goal calls v ok.
Proof.
  intros El Lm LS IM MR CK. destruct PO as [PI _ _ _ _ _].
  assert (Ept : point pd v ok n (g_hs (GR n)) = (2 * m + 1)%nat) by (unfold point; now rewrite IM, El).
  split.
  - exists (p_inv pd), n, (p_op pd), calls, v, ok. split; [reflexivity|split; [exact CK|split; [lia|right]]].
    exists m, t, w. cbn [mk_entry e_pt]. split; [exact Ept|split; [lia|split; assumption]].
  - unfold mpt. cbn [mk_entry e_pt lpl]. rewrite Ept, El, odd_2m1, div2_2m1. reflexivity.
Qed.

Lemma done_obs calls v ok : p_lp pd = None -> is_mut (p_op pd) ok = false -> calls_ok (p_op pd) calls ok ->
  (exists j, (p_inv pd < j <= n)%nat /\ obsfact (p_op pd) v ok (hp (ST j))) -> done_goal calls v ok.
Proof.
  intros El NM CK (j & Lj & Fj). destruct PO as [PI _ _ _ _ _].
  destruct (gr_hs progs sched n (Nat.lt_le_incl _ _ Ln)) as [_ HS].
  assert (Fj' : obs_ok (p_op pd) v ok (nth j (g_hs (GR n)) []) = true).
  { rewrite HS by lia. apply (obs_ok_fact (ST j)); auto using st_inv, st_inv3. }
  destruct (find_obs_some (obs_ok (p_op pd) v ok) (g_hs (GR n)) (p_inv pd) (n - p_inv pd) j ltac:(lia) Fj')
    as (m & Em & Lm & Fm).
  rewrite HS in Fm by lia. apply (obs_ok_fact (ST m)) in Fm; auto using st_inv, st_inv3.
  assert (Ept : point pd v ok n (g_hs (GR n)) = (2 * m)%nat) by (unfold point; now rewrite NM, Em).
  split.
  - exists (p_inv pd), n, (p_op pd), calls, v, ok. split; [reflexivity|split; [exact CK|split; [lia|left]]].
    exists m. cbn [mk_entry e_pt]. split; [exact Ept|split; [lia|exact Fm]].
  - unfold mpt. cbn [mk_entry e_pt lpl]. rewrite Ept, El, odd_2m. reflexivity.
Qed.

Lemma trans_done v ok : snd (action true h t (at_pc th)) = Done v ok -> done_goal (calls_of (at_pc th)) v ok.
Proof.
  destruct (inv_pcs _ I1 t th E) as [P W]. pose proof (invr_flags _ IR t th E) as F.
  pose proof lp_none_pre as LPN. pose proof lp_some_post as LPS.
  pose proof done_mut as DM. pose proof done_obs as DO.
  destruct PO as [PI PF PL PH PG PR].
  fold h in P, W, F, PF. pose proof (inv_ord _ I1) as O. fold h in O.
  (* an unsuccessful LoadAndDelete / Delete *)
  assert (DEL : forall k, is_del (p_op pd) k -> pre_lin (at_pc th) = true ->
            (exists j, (p_inv pd < j <= n)%nat /\ absentk k (hp (ST j))) -> done_goal (calls_of (at_pc th)) 0 false).
  { intros k [PK|PK] PRE (j & Lj & A); (apply DO; [now apply LPN|now rewrite PK|now rewrite PK|]); rewrite PK;
      cbn [obsfact]; exists j; auto. }
  destruct (at_pc th) eqn:Ep; try discriminate B; cbn [action]; cbv zeta; cbn [pc_for calls_of] in *.
  - (* SFind *) destruct (nx h pred) as [c|]; cbn [snd]; [|discriminate].
    destruct (ky h c <? k); cbn [snd]; [discriminate|]. destruct (ky h c =? k); discriminate.
  - (* SLock *) destruct (acquire h t pred); discriminate.
  - (* SValid *) match goal with |- context [if ?b then _ else _] => destruct b end; discriminate.
  - discriminate.
  - discriminate.
  - (* SUnlock *) destruct ok0; cbn [snd]; [|discriminate]. intros X. inversion X; subst v ok.
    destruct (LPS eq_refl) as (m & El & Lm & LS). apply (DM m _ _ 0 true El Lm LS); rewrite PF; [reflexivity|exact I|exact I].
  - (* SLockN *) destruct (acquire h t c); discriminate.
  - (* SChkM *) destruct (mkd h c); discriminate.
  - (* SWaitL *) destruct (lkd h c); discriminate.
  - discriminate.
  - (* SUnlockN *) destruct ok0; cbn [snd]; [|discriminate]. intros X. inversion X; subst v ok.
    destruct (LPS eq_refl) as (m & El & Lm & LS). apply (DM m _ _ 0 true El Lm LS); rewrite PF; [reflexivity|exact I|exact I].
  - contradiction.
  - contradiction.
  - (* RFind *) cbn [pc_ok] in P. destruct P as [[V K] M]. destruct mk as [x|].
    + destruct (nx h pred) as [c|]; cbn [snd]; [|discriminate].
      destruct (ky h c <? k); cbn [snd]; [discriminate|].
      destruct (ky h c =? k); [|discriminate]. destruct (Nat.eqb c x); discriminate.
    + cbn [hind_core] in PH. destruct (nx h pred) as [c|] eqn:En; cbn [snd].
      * destruct (ky h c <? k) eqn:E1; cbn [snd]; [discriminate|].
        destruct (ky h c =? k) eqn:E2; cbn [snd]; [discriminate|].
        intros X. inversion X; subst v ok. apply (DEL k PF eq_refl).
        apply (hind_gap n (p_inv pd) pred k (Some c) PH K En).
        apply Z.ltb_ge in E1. apply Z.eqb_neq in E2. fold h. lia.
      * intros X. inversion X; subst v ok. apply (DEL k PF eq_refl).
        exact (hind_gap n (p_inv pd) pred k None PH K En I).
  - (* RCheck *) cbn [hind_core] in PH. cbn [pc_ok] in P. destruct P as [[V K] (Pv & Vv & Kv)].
    destruct (lkd h v0 && negb (mkd h v0)) eqn:El; cbn [snd]; [discriminate|].
    intros X. inversion X; subst v ok. apply (DEL k PF eq_refl).
    exact (hind_dead n (p_inv pd) v0 k PH PI Pv Kv El).
  - (* RLockV *) destruct (acquire h t v0); discriminate.
  - (* RMark *) destruct (mkd h v0); discriminate.
  - (* RLockP *) destruct (acquire h t pred); discriminate.
  - (* RValid *) match goal with |- context [if ?b then _ else _] => destruct b end; discriminate.
  - discriminate.
  - discriminate.
  - (* RUnlockP *) destruct ok0; discriminate.
  - (* RGiveUp *) cbn [snd]. intros X. inversion X; subst v ok.
    apply (DEL _ PF eq_refl). rewrite <- (is_del_key _ _ PF). exact (PG v0 eq_refl).
  - (* RRead *) cbn [snd]. intros X. inversion X; subst v ok. clear X.
    destruct (LPS eq_refl) as (m & El & Lm & LS). cbn [lad_victim] in LS.
    destruct PF as [PF|PF]; apply (DM m _ _ _ true El Lm LS); rewrite PF; try reflexivity; try exact I.
    cbn [mutres]. split; [reflexivity|]. exists v0. split; [reflexivity|].
    destruct LS as (Lms & Etm & LS). rewrite PF in LS. destruct LS as (pr & x & Epc & Mx & Ex).
    inversion Ex; subst x.
    unfold pc_of in Epc. destruct (nth_error (ths (ST m)) t) as [thm|] eqn:Em; [|discriminate].
    destruct (mark_effect (ST m) (st_inv progs sched m) (st_invR progs sched m) (st_inv3 progs sched m) t thm _ pr v0 Em Epc Mx)
      as (_ & M1 & V1 & _).
    assert (SS : ST (Datatypes.S m) = step true (ST m) t) by (rewrite <- Etm; now apply st_S).
    rewrite <- SS in M1, V1. rewrite <- V1. fold h. apply st_frozen; [lia|exact M1].
  - (* LFind *) cbn [hind_core] in PH. cbn [pc_ok] in P. destruct P as [V K].
    destruct (nx h pred) as [c|] eqn:En; cbn [snd].
    + destruct (ky h c <? k) eqn:E1; cbn [snd]; [discriminate|].
      destruct (ky h c =? k) eqn:E2; cbn [snd]; [discriminate|].
      intros X. inversion X; subst v ok. apply DO; [now apply LPN|now rewrite PF|now rewrite PF|]. rewrite PF. cbn [obsfact].
      destruct (hind_gap n (p_inv pd) pred k (Some c) PH K En) as (j & Lj & A).
      { apply Z.ltb_ge in E1. apply Z.eqb_neq in E2. fold h. lia. }
      exists j. auto.
    + intros X. inversion X; subst v ok. apply DO; [now apply LPN|now rewrite PF|now rewrite PF|]. rewrite PF. cbn [obsfact].
      destruct (hind_gap n (p_inv pd) pred k None PH K En I) as (j & Lj & A). exists j. auto.
  - (* LFlags *) cbn [hind_core] in PH. cbn [pc_ok] in P. destruct P as (Pc & Vc & Kc).
    destruct (lkd h c && negb (mkd h c)) eqn:El; cbn [snd]; [discriminate|].
    intros X. inversion X; subst v ok. apply DO; [now apply LPN|now rewrite PF|now rewrite PF|]. rewrite PF. cbn [obsfact].
    destruct (hind_dead n (p_inv pd) c k PH PI Pc Kc El) as (j & Lj & A). exists j. auto.
  - (* LRead *) cbn [snd]. intros X. inversion X; subst v ok. clear X.
    apply DO; [now apply LPN|now rewrite PF|now rewrite PF|]. rewrite PF. cbn [obsfact].
    destruct (PR c eq_refl) as (Pc & j & Lj & Vj & Lvj).
    destruct (hind_value j n c ltac:(lia) Vj Lvj) as (m & Lm & Lvm & Evm).
    exists m. split; [lia|]. fold h in Evm. rewrite <- Evm.
    assert (Vm : valid (hp (ST m)) c) by (apply (st_valid progs sched j); [lia|exact Vj]).
    apply (present_live (ST m)); auto. unfold h.
    rewrite (st_key progs sched j m c), (st_key progs sched j n c); auto; lia.
  - (* OFind *) destruct (nx h pred) as [c|]; cbn [snd]; [|discriminate].
    destruct (ky h c <? k); cbn [snd]; [discriminate|]. destruct (ky h c =? k); discriminate.
  - (* OChkM *) destruct (mkd h c); discriminate.
  - (* OWaitL *) destruct (lkd h c); discriminate.
  - (* ORead *) cbn [snd]. intros X. inversion X; subst v ok. clear X.
    cbn [hind_core] in PH. cbn [pc_ok] in P. destruct P as (Pc & Vc & Kc). destruct PF as [PF ->].
    destruct PH as [(j & Lj & Vj & Mj) Lkn].
    assert (OBS : exists m, (p_inv pd < m <= n)%nat /\ In (k, vl h c) (absmap (hp (ST m)))).
    { destruct (hind_value2 j n c ltac:(lia) Vj Mj Lkn) as (m & Lm & Lvm & Evm).
      exists m. split; [lia|]. fold h in Evm. rewrite <- Evm.
      assert (Vm : valid (hp (ST m)) c) by (apply (st_valid progs sched j); [lia|exact Vj]).
      apply (present_live (ST m)); auto. rewrite <- Kc. unfold h.
      rewrite (st_key progs sched j m c), (st_key progs sched j n c); auto; lia. }
    destruct OBS as (m & Lm & Hm).
    apply DO; [now apply LPN| | |]; rewrite PF; destruct lz; cbn [oop is_mut calls_ok obsfact negb]; auto;
      exists m; auto.
  - (* OLock *) destruct (acquire h t pred); discriminate.
  - (* OValid *) match goal with |- context [if ?b then _ else _] => destruct b end; [destruct lz|]; discriminate.
  - discriminate.
  - discriminate.
  - discriminate.
  - (* OUnlock *) destruct ok0; cbn [snd]; [|discriminate]. intros X. inversion X; subst v0 ok. clear X.
    destruct PF as [PF ->].
    destruct (LPS eq_refl) as (m & El & Lm & LS).
    apply (DM m _ _ v false El Lm LS); rewrite PF; destruct lz; cbn [oop is_mut mutres calls_ok ins_cnt negb]; auto.
Qed.
End Act.

(* ---------- the trace invariant is kept by every step ---------- *)
Lemma flat_map_upd {A B} (f : A -> list B) (l : list A) t x d : (t < length l)%nat ->
  Permutation (flat_map f (upd l t x) ++ f (nth t l d)) (f x ++ flat_map f l).
Proof.
  intros L. pose proof (upd_perm_app l t x d L) as P. apply (Permutation_flat_map f) in P.
  rewrite flat_map_app in P. simpl in P. rewrite app_nil_r in P. exact P.
Qed.

Lemma NoDup_snoc {A} (l : list A) x : NoDup l -> ~ In x l -> NoDup (l ++ [x]).
Proof.
  intros N I. eapply Permutation_NoDup; [apply Permutation_cons_append|]. now constructor.
Qed.

Lemma lin_not_done h t p o : pc_for h p o -> lin_pc h p = true -> resting (snd (action true h t p)) = false.
Proof.
  destruct p; simpl; try discriminate; try reflexivity; try contradiction.
  intros _ X. apply negb_true_iff in X. now rewrite X.
Qed.

Lemma action_not_idle h t p : resting p = false -> snd (action true h t p) <> Idle.
Proof. destruct p; try discriminate; intros _; cbn [action]; split_action; discriminate. Qed.

Lemma step_other s t u : u <> t -> nth_error (ths (step true s t)) u = nth_error (ths s) u.
Proof.
  intros N. unfold step. destruct (nth_error (ths s) t); [|reflexivity]. cbn [ths]. now apply nth_error_upd_other.
Qed.

Lemma step_thread s t th : nth_error (ths s) t = Some th ->
  nth_error (ths (step true s t)) t = Some (snd (thr_step true (hp s) t th)) /\
  hp (step true s t) = fst (thr_step true (hp s) t th).
Proof.
  intros E. unfold step. rewrite E. cbn [ths hp]. split; [|reflexivity].
  apply nth_error_upd_same. apply nth_error_Some. congruence.
Qed.

Lemma gstep_fields g t :
  let s := g_s g in let n := g_n g in let cur1 := own_upd s n t (g_cur g) in
  let fin := match fin_res s t, nth t cur1 None with Some r, Some pd => Some (r, pd) | _, _ => None end in
  g_cur (gstep g t) = (match fin with Some _ => upd cur1 t None | None => cur1 end) /\
  g_log (gstep g t) = (match fin with
                       | Some (r, pd) => g_log g ++ [mk_entry pd (calls_of (pc_of s t)) (fst r) (snd r) n (g_hs g)]
                       | None => g_log g end) /\
  g_chg (gstep g t) = (if negb (resting (pc_of s t)) && lin_pc (hp s) (pc_of s t) then g_chg g ++ [n] else g_chg g).
Proof. cbv zeta. auto. Qed.

Section Step.
Variable n : nat.
Hypothesis Ln : (n < length sched)%nat.
Hypothesis TIn : TI n.

Let t0 := TID n.
Let s := ST n.
Let cur := g_cur (GR n).

(* assemble TI (n+1) from a description of what the step did to the bookkeeping *)
Lemma ti_build X log' chg' :
  g_cur (GR (Datatypes.S n)) = X -> g_log (GR (Datatypes.S n)) = log' -> g_chg (GR (Datatypes.S n)) = chg' ->
  length X = length cur ->
  (forall t, t <> t0 -> nth t X None = nth t cur None) ->
  (forall th', nth_error (ths (ST (Datatypes.S n))) t0 = Some th' ->
     match nth t0 X None with
     | None => resting (at_pc th') = true
     | Some pd' => resting (at_pc th') = false /\ pend_ok (Datatypes.S n) t0 (at_pc th') pd'
     end) ->
  (forall e, In e log' -> entry_ok (Datatypes.S n) e) ->
  Permutation (flat_map mpt log' ++ flat_map lpl X) chg' ->
  (chg' = g_chg (GR n) \/ chg' = g_chg (GR n) ++ [n]) ->
  (~ In n chg' -> absmap (hp (ST (Datatypes.S n))) = absmap (hp (ST n))) ->
  TI (Datatypes.S n).
Proof.
  intros Ec El Eg LX OT T0 LG PM CH FR. destruct TIn as [TL TT TLG TP TCL TCN TCF].
  assert (SS : ST (Datatypes.S n) = step true s t0) by (apply st_S; exact Ln).
  split.
  - rewrite Ec, LX. unfold cur. rewrite TL, SS. symmetry. apply step_ths_length.
  - intros t th E. rewrite Ec.
    destruct (Nat.eq_dec t t0) as [->|N]; [now apply T0|].
    rewrite (OT t N). rewrite SS in E. rewrite step_other in E by exact N. fold s in TT.
    specialize (TT t th E). unfold cur. destruct (nth t (g_cur (GR n)) None) as [pd|]; [|exact TT].
    destruct TT as [Bz PO]. split; [exact Bz|].
    apply pend_other; [|exact PO]. exact (proj1 (inv_pcs _ (st_inv progs sched n) t th E)).
  - intros e He. rewrite El in He. now apply LG.
  - rewrite Ec, El, Eg. exact PM.
  - intros m Hm. rewrite Eg in Hm. destruct CH as [-> | ->].
    + specialize (TCL m Hm). lia.
    + apply in_app_or in Hm as [Hm|[<-|[]]]; [specialize (TCL m Hm)|]; lia.
  - rewrite Eg. destruct CH as [-> | ->]; [exact TCN|]. apply NoDup_snoc; [exact TCN|].
    intros Hin. specialize (TCL n Hin). lia.
  - intros m Lm Nm. rewrite Eg in Nm. destruct (Nat.eq_dec m n) as [->|Ne]; [now apply FR|].
    apply TCF; [lia|]. intros Hin. apply Nm. destruct CH as [-> | ->]; [exact Hin|]. apply in_or_app. now left.
Qed.

Theorem ti_step : TI (Datatypes.S n).
Proof.
  pose proof TIn as TIn'. destruct TIn' as [TL TT TLG TP TCL TCN TCF].
  assert (SS : ST (Datatypes.S n) = step true s t0) by (apply st_S; exact Ln).
  assert (IS : GR (Datatypes.S n) = gstep (GR n) t0) by (apply gr_S; exact Ln).
  assert (IN : g_n (GR n) = n) by (apply gr_n; lia).
  destruct (gstep_fields (GR n) t0) as (FC & FL & FG). rewrite IN in FC, FL, FG.
  change (g_s (GR n)) with s in FC, FL, FG. fold cur in FC, FL. rewrite <- IS in FC, FL, FG.
  destruct (nth_error (ths s) t0) as [th|] eqn:E.
  2:{ (* no such thread *)
    assert (PC : pc_of s t0 = Idle) by (unfold pc_of; now rewrite E).
    assert (OU : own_upd s n t0 cur = cur) by (unfold own_upd; now rewrite E).
    assert (FR : fin_res s t0 = None) by (unfold fin_res; now rewrite PC).
    rewrite OU, FR in FC, FL. rewrite PC in FG. cbn [resting negb andb] in FG.
    apply (ti_build cur (g_log (GR n)) (g_chg (GR n))); auto.
    - intros th' E'. rewrite SS in E'. unfold step in E'. rewrite E in E'. fold s in E'. congruence.
    - intros e He. apply entry_ok_mono. now apply TLG.
    - intros _. rewrite SS. unfold step. now rewrite E. }
  assert (PC : pc_of s t0 = at_pc th) by (unfold pc_of; now rewrite E).
  assert (Lt : (t0 < length cur)%nat).
  { unfold cur. rewrite TL. apply nth_error_Some. fold s. congruence. }
  specialize (TT t0 th E). fold cur in TT.
  destruct (step_thread s t0 th E) as [TH' HP'].
  destruct (resting (at_pc th)) eqn:Bz.
  - (* the thread is between operations *)
    destruct (nth t0 cur None) as [pd|] eqn:Ecur; [destruct TT; congruence|].
    assert (FR : fin_res s t0 = None) by (unfold fin_res; now rewrite PC, Bz).
    rewrite FR in FC, FL. rewrite PC, Bz in FG. cbn [negb andb] in FG.
    assert (HS : hp (step true s t0) = hp s).
    { rewrite HP'. unfold thr_step. rewrite Bz. destruct (todo th); reflexivity. }
    assert (AB : absmap (hp (ST (Datatypes.S n))) = absmap (hp (ST n))) by (rewrite SS, HS; reflexivity).
    destruct (todo th) as [|o rest] eqn:Etd.
    + assert (OU : own_upd s n t0 cur = cur) by (unfold own_upd; now rewrite E, Bz, Etd).
      rewrite OU in FC.
      apply (ti_build cur (g_log (GR n)) (g_chg (GR n))); auto.
      * intros th' E'. rewrite Ecur. rewrite SS, TH' in E'. inversion E'; subst th'.
        unfold thr_step. rewrite Bz, Etd. reflexivity.
      * intros e He. apply entry_ok_mono. now apply TLG.
    + (* the thread starts its next operation *)
      set (fresh := {| p_op := o; p_inv := n; p_lp := None |}).
      assert (OU : own_upd s n t0 cur = upd cur t0 (Some fresh)) by (unfold own_upd; now rewrite E, Bz, Etd).
      rewrite OU in FC.
      apply (ti_build (upd cur t0 (Some fresh)) (g_log (GR n)) (g_chg (GR n))); auto.
      * now rewrite upd_length.
      * intros t N. apply nth_upd_other. congruence.
      * intros th' E'. rewrite nth_upd_same by exact Lt. rewrite SS, TH' in E'. inversion E'; subst th'.
        assert (EP : at_pc (snd (thr_step true (hp s) t0 th)) = start o).
        { unfold thr_step. rewrite Bz, Etd. reflexivity. }
        rewrite EP. split; [destruct o; reflexivity|]. split; cbn [fresh p_op p_inv p_lp].
        -- lia.
        -- destruct o; cbn [start pc_for oop]; unfold is_del; auto.
        -- destruct o; reflexivity.
        -- destruct o; simpl; auto; exists (Datatypes.S n); (split; [lia|apply reach_refl]).
        -- intros v Ev. destruct o; discriminate Ev.
        -- intros c Ec. destruct o; discriminate Ec.
      * intros e He. apply entry_ok_mono. now apply TLG.
      * pose proof (flat_map_upd lpl cur t0 (Some fresh) None Lt) as FM. rewrite Ecur in FM.
        cbn [lpl fresh p_lp app] in FM. rewrite app_nil_r in FM. rewrite FM. exact TP.
  - (* the thread is inside an operation *)
    destruct (nth t0 cur None) as [pd|] eqn:Ecur; [|congruence]. destruct TT as [_ PO].
    destruct (step_at true s t0 th E Bz) as [HP2 PC']. rewrite <- SS in PC', HP2.
    assert (TH2 : forall th', nth_error (ths (ST (Datatypes.S n))) t0 = Some th' ->
              at_pc th' = snd (action true (hp s) t0 (at_pc th))).
    { intros th' E'. unfold pc_of in PC'. now rewrite E' in PC'. }
    assert (NL : lin_pc (hp s) (at_pc th) = false -> absmap (hp (ST (Datatypes.S n))) = absmap (hp (ST n))).
    { intros X. rewrite SS. apply step_abs_frame; [apply st_inv|]. fold s. now rewrite PC. }
    destruct (resting (snd (action true (hp s) t0 (at_pc th)))) eqn:Bz'.
    + (* it completes its operation *)
      destruct (snd (action true (hp s) t0 (at_pc th))) as [|v ok| | | | | | | | | | | | | | | | | | | | | | | | | | | | | | | | | | | | |] eqn:Ea;
        try discriminate Bz'.
      { exfalso. exact (action_not_idle (hp s) t0 (at_pc th) Bz Ea). }
      assert (Lp : lin_pc (hp s) (at_pc th) = false).
      { destruct (lin_pc (hp s) (at_pc th)) eqn:X; [|reflexivity].
        apply (lin_not_done _ t0 _ (p_op pd)) in X; [|exact (po_for _ _ _ _ PO)]. rewrite Ea in X. discriminate. }
      assert (OU : own_upd s n t0 cur = cur) by (unfold own_upd; now rewrite E, Bz, Lp).
      assert (FR : fin_res s t0 = Some (v, ok)).
      { unfold fin_res. rewrite PC, Bz. rewrite <- SS, PC'. reflexivity. }
      rewrite OU, FR, Ecur in FC, FL. rewrite PC in FL. rewrite PC, Bz, Lp in FG. cbn [negb andb fst snd] in FG, FL.
      destruct (trans_done n t0 th pd Ln eq_refl E Bz PO v ok Ea) as [D1 D2].
      apply (ti_build (upd cur t0 None) (g_log (GR n) ++ [mk_entry pd (calls_of (at_pc th)) v ok n (g_hs (GR n))]) (g_chg (GR n))); auto.
      * now rewrite upd_length.
      * intros t N. apply nth_upd_other. congruence.
      * intros th' E'. rewrite nth_upd_same by exact Lt. rewrite (TH2 th' E'). reflexivity.
      * intros e He. apply in_app_or in He as [He|[<-|[]]]; [apply entry_ok_mono; now apply TLG|exact D1].
      * pose proof (flat_map_upd lpl cur t0 None None Lt) as FM. rewrite Ecur in FM. cbn [lpl app] in FM.
        change (match p_lp pd with Some m => [m] | None => [] end) with (lpl (Some pd)) in FM.
        rewrite flat_map_app. cbn [flat_map]. rewrite app_nil_r, D2. rewrite <- app_assoc.
        fold cur in TP. eapply perm_trans; [|exact TP]. apply Permutation_app_head.
        eapply perm_trans; [apply Permutation_app_comm|exact FM].
    + (* it continues *)
      assert (FR : fin_res s t0 = None).
      { unfold fin_res. rewrite PC, Bz. rewrite <- SS, PC'.
        destruct (snd (action true (hp s) t0 (at_pc th))); auto; discriminate. }
      rewrite FR in FC, FL. rewrite PC, Bz in FG. cbn [negb andb] in FG.
      destruct (trans_busy n t0 th pd Ln eq_refl E Bz PO Bz') as (F1 & F2 & F3 & F4 & F5). cbv zeta in F1, F2, F3, F4, F5.
      change (hp (ST n)) with (hp s) in F2.
      destruct PO as [PI PF PL PH PG PR].
      destruct (lin_pc (hp s) (at_pc th)) eqn:Lp.
      * (* the linearization step *)
        destruct F2 as (F2a & F2b & F2c).
        assert (OU : own_upd s n t0 cur = upd cur t0 (Some (set_lp n pd))).
        { unfold own_upd. rewrite E, Bz, Lp, Ecur. reflexivity. }
        rewrite OU in FC.
        apply (ti_build (upd cur t0 (Some (set_lp n pd))) (g_log (GR n)) (g_chg (GR n) ++ [n])); auto.
        -- now rewrite upd_length.
        -- intros t N. apply nth_upd_other. congruence.
        -- intros th' E'. rewrite nth_upd_same by exact Lt. rewrite (TH2 th' E'). split; [exact Bz'|].
           split; cbn [set_lp p_op p_inv p_lp]; auto; try (split; [exact F2b|split; [lia|exact F2c]]).
        -- intros e He. apply entry_ok_mono. now apply TLG.
        -- pose proof (flat_map_upd lpl cur t0 (Some (set_lp n pd)) None Lt) as FM. rewrite Ecur in FM.
           cbn [lpl set_lp p_lp] in FM. rewrite F2a in FM. cbn [app] in FM. rewrite app_nil_r in FM.
           fold cur in TP.
           eapply perm_trans; [apply Permutation_app_head; exact FM|].
           eapply perm_trans; [symmetry; apply Permutation_middle|].
           eapply perm_trans; [|apply Permutation_cons_append]. constructor. exact TP.
        -- intros X. exfalso. apply X. apply in_or_app. right. now left.
      * (* an ordinary step *)
        destruct F2 as (F2a & F2b).
        assert (OU : own_upd s n t0 cur = cur) by (unfold own_upd; now rewrite E, Bz, Lp).
        rewrite OU in FC.
        apply (ti_build cur (g_log (GR n)) (g_chg (GR n))); auto.
        -- intros th' E'. rewrite Ecur. rewrite (TH2 th' E'). split; [exact Bz'|].
           split; auto. rewrite F2a. destruct (p_lp pd); [|exact PL].
           destruct PL as (A & B0 & C). split; [exact A|split; [lia|]]. rewrite (F2b A). exact C.
        -- intros e He. apply entry_ok_mono. now apply TLG.
Qed.
End Step.

Lemma ti_0 : TI 0.
Proof.
  assert (I0 : GR 0 = ginit progs) by reflexivity.
  split; rewrite ?I0; cbn [ginit g_cur g_log g_chg].
  - unfold st. rewrite I0. cbn [ginit g_s init ths]. now rewrite !map_length.
  - intros t th E. unfold st in E. rewrite I0 in E. cbn [ginit g_s init ths] in E.
    assert (X : nth t (map (fun _ : list opk => @None pnd) progs) None = None).
    { clear. revert t. induction progs as [|a l IH]; intros [|t]; simpl; auto. }
    rewrite X. apply nth_error_In in E. apply in_map_iff in E as (q & <- & _). reflexivity.
  - intros e [].
  - simpl. assert (X : flat_map lpl (map (fun _ : list opk => @None pnd) progs) = []).
    { clear. induction progs as [|a l IH]; simpl; auto. }
    rewrite X. constructor.
  - intros m [].
  - constructor.
  - intros m Lm. lia.
Qed.

Theorem ti_all n : (n <= length sched)%nat -> TI n.
Proof.
  induction n as [|n IH]; intros L; [apply ti_0|]. apply ti_step; [lia|apply IH; lia].
Qed.
End Linz.
