(* C04 protocol model WITH VALUES (LazyMap.v; port of LazyReach.v): reachability along next pointers and what the six kinds of heap
   update of the protocol (none / lock / mark / fullyLinked / link a new node / unlink) do to it. *)
From VF Require Import Common.Base C04.Proofs.
From VF Require Import C04.LazyMap C04.ProofsLazyMap.
Local Open Scope Z_scope.

Notation lk h i := (lock (get h i)).
Notation mkd h i := (marked (get h i)).
Notation lkd h i := (linked (get h i)).
Notation nx h i := (next (get h i)).
Notation ky h i := (key (get h i)).

Inductive reach (h : heap) : nat -> nat -> Prop :=
| reach_refl i : reach h i i
| reach_step i m j : nx h i = Some m -> reach h m j -> reach h i j.

Lemma nx_valid h a m : nx h a = Some m -> valid h a.
Proof.
  intros E. unfold valid. destruct (Nat.lt_ge_cases a (length h)) as [L|L]; [exact L|].
  unfold get in E. rewrite nth_overflow in E by lia. discriminate.
Qed.

Lemma reach_inv h a b : reach h a b -> a = b \/ exists m, nx h a = Some m /\ reach h m b.
Proof. intros R. inversion R; subst; eauto. Qed.

Lemma reach_trans h a b c : reach h a b -> reach h b c -> reach h a c.
Proof. induction 1 as [|i m j E R IH]; intros H; [exact H|]. eapply reach_step; eauto. Qed.

Lemma reach_snoc h a x b : reach h a x -> nx h x = Some b -> reach h a b.
Proof. intros R E. eapply reach_trans; [exact R|]. eapply reach_step; [exact E|apply reach_refl]. Qed.

(* the last edge of a non-trivial path *)
Lemma reach_last h a b : reach h a b -> a = b \/ exists x, reach h a x /\ nx h x = Some b.
Proof.
  induction 1 as [|i m j E R IH]; [now left|]. right.
  destruct IH as [->|(x & R1 & E1)].
  - exists i. split; [apply reach_refl|exact E].
  - exists x. split; [eapply reach_step; eauto|exact E1].
Qed.

Lemma reach_valid h a b : valid h a -> ord h -> reach h a b -> valid h b.
Proof.
  intros V O R. induction R as [|i m j E R IH]; [exact V|]. apply IH.
  destruct (O i m V E) as (_ & B & _). exact B.
Qed.

(* every edge goes to an index >= 1 with a larger key *)
Lemma reach_pos h a b : ord h -> reach h a b -> a = b \/ (1 <= b)%nat.
Proof.
  intros O R. induction R as [|i m j E R IH]; [now left|]. right.
  destruct (O i m (nx_valid _ _ _ E) E) as (A & _ & _). destruct IH as [<-|IH]; assumption.
Qed.

Lemma reach_key h a b : ord h -> (1 <= a)%nat -> reach h a b -> a = b \/ ky h a < ky h b.
Proof.
  intros O P R. induction R as [|i m j E R IH]; [now left|]. right.
  destruct (O i m (nx_valid _ _ _ E) E) as (A & _ & C). specialize (C ltac:(lia)).
  destruct (IH A) as [<-|IH']; lia.
Qed.

(* next is a function: two paths from the same node are comparable *)
Lemma reach_linear h a x y : reach h a x -> reach h a y -> reach h x y \/ reach h y x.
Proof.
  intros Rx. revert y. induction Rx as [i|i m j E R IH]; intros y Ry; [now left|].
  inversion Ry as [|i' m' j' E' R']; subst.
  - right. eapply reach_step; eauto.
  - rewrite E in E'. inversion E'; subst. now apply IH.
Qed.

(* two reachable nodes with the same key are the same node *)
Lemma reach_key_unique h x y : ord h -> (1 <= x)%nat -> (1 <= y)%nat -> reach h 0 x -> reach h 0 y ->
  ky h x = ky h y -> x = y.
Proof.
  intros O Px Py Rx Ry K. destruct (reach_linear _ _ _ _ Rx Ry) as [R|R].
  - destruct (reach_key _ _ _ O Px R); [assumption|lia].
  - destruct (reach_key _ _ _ O Py R); [congruence|lia].
Qed.

(* a reachable node between whose predecessor and successor k lies does not exist *)
Lemma reach_gap h p c k x : ord h -> reach h 0 p -> (p <> 0%nat -> ky h p < k) ->
  nx h p = c -> match c with Some m => k < ky h m | None => True end ->
  (1 <= x)%nat -> reach h 0 x -> ky h x <> k.
Proof.
  intros O Rp Kp E Kc Px Rx Kx.
  destruct (reach_linear _ _ _ _ Rp Rx) as [R|R].
  - (* p ->* x *) inversion R as [|i m j E' R']; subst.
    + specialize (Kp ltac:(lia)). lia.
    + rewrite E' in Kc. destruct (O p m (nx_valid _ _ _ E') E') as (A & _ & _).
      destruct (reach_key _ _ _ O A R') as [<-|L]; lia.
  - (* x ->* p *) destruct (reach_key _ _ _ O Px R) as [<-|L].
    + specialize (Kp ltac:(lia)). lia.
    + destruct (Nat.eq_dec p 0) as [->|N].
      * destruct (reach_pos _ _ _ O R) as [->|?]; lia.
      * specialize (Kp N). lia.
Qed.

(* ---------- field lemmas for the heap updates ---------- *)
Lemma get_setn h i j f : valid h i -> get (setn h i f) j = if Nat.eq_dec j i then f (get h i) else get h j.
Proof.
  intros V. destruct (Nat.eq_dec j i) as [->|N]; [now apply get_setn_same|now apply get_setn_other].
Qed.

Lemma valid_setn h i f j : valid (setn h i f) j <-> valid h j.
Proof. unfold valid. now rewrite setn_length. Qed.

(* updates that keep every next pointer keep reachability *)
Lemma reach_same_next h h' : (forall i, nx h' i = nx h i) -> forall a b, reach h a b -> reach h' a b.
Proof.
  intros E a b R. induction R as [|i m j E1 R IH]; [apply reach_refl|].
  eapply reach_step; [rewrite E; exact E1|exact IH].
Qed.

Lemma nx_setn_flags h i f j : (forall n, next (f n) = next n) -> nx (setn h i f) j = nx h j.
Proof. intros Hf. now apply (fld_setn next). Qed.

(* ---------- linking a new node ---------- *)
Definition newnode (k v0 : Z) (succ : option nat) : nd :=
  {| key := k; value := v0; next := succ; marked := false; linked := false; lock := None |}.
Definition linkh (h : heap) (pred : nat) (k v0 : Z) (succ : option nat) : heap :=
  setn (h ++ [newnode k v0 succ]) pred (set_next (Some (length h))).

Lemma linkh_length h pred k v0 succ : length (linkh h pred k v0 succ) = Datatypes.S (length h).
Proof. unfold linkh. rewrite setn_length, app_length. simpl. lia. Qed.

Lemma get_linkh h pred k v0 succ j : valid h pred ->
  get (linkh h pred k v0 succ) j =
    if Nat.eq_dec j pred then set_next (Some (length h)) (get h pred)
    else if Nat.eq_dec j (length h) then newnode k v0 succ else get h j.
Proof.
  intros V. unfold linkh.
  assert (V1 : valid (h ++ [newnode k v0 succ]) pred) by (unfold valid in *; rewrite app_length; simpl; lia).
  rewrite get_setn by exact V1. destruct (Nat.eq_dec j pred) as [->|N].
  - now rewrite get_app_old.
  - destruct (Nat.eq_dec j (length h)) as [->|N2]; [apply get_app_new|].
    destruct (Nat.lt_ge_cases j (length h)) as [L|L]; [now apply get_app_old|].
    unfold get. rewrite !nth_overflow; [reflexivity|lia|rewrite app_length; simpl; lia].
Qed.

Lemma reach_linkh h pred k v0 succ a b : valid h pred -> nx h pred = succ ->
  reach h a b -> reach (linkh h pred k v0 succ) a b.
Proof.
  intros V E R. induction R as [|i m j E1 R IH]; [apply reach_refl|].
  destruct (Nat.eq_dec i pred) as [->|N].
  - apply reach_step with (length h).
    + rewrite get_linkh by exact V. destruct (Nat.eq_dec pred pred); [reflexivity|congruence].
    + apply reach_step with m; [|exact IH]. rewrite get_linkh by exact V.
      unfold valid in V. destruct (Nat.eq_dec (length h) pred); [lia|].
      destruct (Nat.eq_dec (length h) (length h)); [|congruence]. simpl. congruence.
  - apply reach_step with m; [|exact IH]. rewrite get_linkh by exact V.
    destruct (Nat.eq_dec i pred); [congruence|].
    pose proof (nx_valid _ _ _ E1) as Vi. unfold valid in Vi.
    destruct (Nat.eq_dec i (length h)); [lia|exact E1].
Qed.

Lemma reach_linkh_back h pred k v0 succ a b : valid h pred -> ord h -> nx h pred = succ ->
  reach (linkh h pred k v0 succ) a b -> valid h b ->
  (valid h a -> reach h a b) /\
  (a = length h -> match succ with Some s => reach h s b | None => False end).
Proof.
  intros V O E R Vb. subst succ. induction R as [i|i m j E1 R IH].
  - split; [intros _; apply reach_refl|]. intros ->. unfold valid in Vb. lia.
  - specialize (IH Vb). destruct IH as [IH1 IH2]. rewrite get_linkh in E1 by exact V. split.
    + intros Vi. destruct (Nat.eq_dec i pred) as [->|N].
      * simpl in E1. inversion E1; subst m. specialize (IH2 eq_refl).
        destruct (nx h pred) as [s|] eqn:Es; [|contradiction].
        eapply reach_step; [exact Es|exact IH2].
      * unfold valid in Vi. destruct (Nat.eq_dec i (length h)); [lia|].
        destruct (O i m Vi E1) as (_ & Vm & _). eapply reach_step; [exact E1|now apply IH1].
    + intros ->. unfold valid in V. destruct (Nat.eq_dec (length h) pred); [lia|].
      destruct (Nat.eq_dec (length h) (length h)); [|congruence]. simpl in E1.
      rewrite E1. apply IH1. destruct (O pred m V E1) as (_ & Vm & _). exact Vm.
Qed.

(* ---------- unlinking ---------- *)
Definition unlinkh (h : heap) (pred v : nat) : heap := setn h pred (set_next (nx h v)).

Lemma get_unlinkh h pred v j : valid h pred ->
  get (unlinkh h pred v) j = if Nat.eq_dec j pred then set_next (nx h v) (get h pred) else get h j.
Proof. intros V. unfold unlinkh. now apply get_setn. Qed.

Lemma reach_unlinkh h pred v a b : valid h pred -> pred <> v -> nx h pred = Some v ->
  reach h a b -> b <> v -> reach (unlinkh h pred v) a b.
Proof.
  intros V N E R Nb. induction R as [|i m j E1 R IH]; [apply reach_refl|]. specialize (IH Nb).
  destruct (Nat.eq_dec i pred) as [->|Ni].
  - rewrite E in E1. inversion E1; subst m.
    (* the path continues from v, and v <> j, so it takes v's edge *)
    inversion IH as [|i' w j' Ew Rw]; subst; [congruence|].
    rewrite get_unlinkh in Ew by exact V. destruct (Nat.eq_dec v pred); [congruence|].
    eapply reach_step; [|exact Rw]. rewrite get_unlinkh by exact V.
    destruct (Nat.eq_dec pred pred); [|congruence]. simpl. exact Ew.
  - eapply reach_step; [|exact IH]. rewrite get_unlinkh by exact V.
    destruct (Nat.eq_dec i pred); [congruence|exact E1].
Qed.

Lemma reach_unlinkh_back h pred v a b : valid h pred -> pred <> v -> nx h pred = Some v ->
  reach (unlinkh h pred v) a b -> reach h a b.
Proof.
  intros V N E R. induction R as [|i m j E1 R IH]; [apply reach_refl|].
  rewrite get_unlinkh in E1 by exact V. destruct (Nat.eq_dec i pred) as [->|Ni].
  - simpl in E1. eapply reach_step; [exact E|]. eapply reach_step; [exact E1|exact IH].
  - eapply reach_step; [exact E1|exact IH].
Qed.

(* after the unlink the victim is not reachable from the header any more *)
Lemma unlinkh_unreach h pred v : valid h pred -> ord h -> (1 <= v)%nat -> valid h v ->
  (pred <> 0%nat -> ky h pred < ky h v) -> nx h pred = Some v -> reach h 0 pred ->
  ~ reach (unlinkh h pred v) 0 v.
Proof.
  intros V O Pv Vv K E Rp R.
  assert (N : pred <> v).
  { intros ->. destruct (O v v Vv E) as (_ & _ & C). specialize (C ltac:(lia)). lia. }
  destruct (reach_last _ _ _ R) as [Z0|(x & Rx & Ex)]; [lia|].
  rewrite get_unlinkh in Ex by exact V. destruct (Nat.eq_dec x pred) as [->|Nx].
  - simpl in Ex. destruct (O v v Vv Ex) as (_ & _ & C). specialize (C ltac:(lia)). lia.
  - pose proof (reach_unlinkh_back _ _ _ _ _ V N E Rx) as Rx'.
    assert (Px : x = 0%nat \/ (1 <= x)%nat) by lia.
    destruct (reach_linear _ _ _ _ Rx' Rp) as [R1|R1].
    + (* x ->* pred, x <> pred: x -> v ->* pred *)
      inversion R1 as [|i m j E1 R2]; subst; [congruence|]. rewrite Ex in E1. inversion E1; subst m.
      destruct (reach_key _ _ _ O Pv R2) as [<-|L]; [congruence|].
      destruct (Nat.eq_dec pred 0) as [->|Np].
      * destruct (reach_pos _ _ _ O R2) as [->|?]; lia.
      * specialize (K Np). lia.
    + (* pred ->* x, pred <> x: pred -> v ->* x -> v *)
      inversion R1 as [|i m j E1 R2]; subst; [congruence|]. rewrite E in E1. inversion E1; subst m.
      destruct (O x v (nx_valid _ _ _ Ex) Ex) as (_ & _ & C).
      destruct (reach_key _ _ _ O Pv R2) as [<-|L].
      * specialize (C ltac:(lia)). lia.
      * assert (x <> 0%nat).
        { intros ->. destruct (reach_pos _ _ _ O R2) as [->|?]; lia. }
        specialize (C ltac:(lia)). lia.
Qed.
