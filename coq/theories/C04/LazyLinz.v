(* C04 protocol model: every operation of an execution of LazySkip.v has a linearization point inside its
   interval (trace invariant [TI]), hence the recorded history of every complete execution is linearizable
   with respect to the set specification of Spec.v, in the sense of Common/Hist.v. *)
From VF Require Import Common.Base Common.Hist C04.Spec C04.Proofs.
From VF Require Import C04.LazySkip C04.ProofsLazy C04.LazyReach C04.LazyEff C04.LazyLock C04.LazyProgress
  C04.LazyHist C04.LazyTrace.
Local Open Scope Z_scope.

Lemma is_busy_busy p : is_busy p = true <-> busy p.
Proof.
  split.
  - intros B. split; [intros ->; discriminate|intros r ->; discriminate].
  - intros [B1 B2]. destruct p; try reflexivity; [congruence|exfalso; eapply B2; reflexivity].
Qed.

Lemma pc_of_step_busy s t th : nth_error (ths s) t = Some th -> is_busy (at_pc th) = true ->
  pc_of (step s t) t = snd (action (hp s) t (at_pc th)) /\ hp (step s t) = fst (action (hp s) t (at_pc th)).
Proof.
  intros E B. apply is_busy_busy in B. destruct (step_thread s t th E) as [A1 A2].
  rewrite thr_step_busy in A1, A2 by exact B. unfold pc_of. rewrite A1. auto.
Qed.

Definition pc_for (h : heap) (p : pc) (o : opk) : Prop :=
  match p with
  | AFind k _ | ALock k _ _ | AValid k _ _ | ALink k _ _ | AFull k _ _ => o = OAdd k
  | AUnlock _ res k => o = OAdd k /\ res <> Some false
  | RFind k _ _ | RCheck k _ _ | RLockV k _ _ | RMark k _ _ | RLockP k _ _ | RValid k _ _ | RUnlink k _ _
  | RUnlockV k _ _ _ | RUnlockP k _ _ _ => o = ORemove k
  | RGiveUp v => o = ORemove (ky h v)
  | CFind k _ => o = OContains k
  | Idle | Done _ => False
  end.

(* program counters before the operation's linearization step *)
Definition pre_lin (p : pc) : bool :=
  match p with
  | AFind _ _ | ALock _ _ _ | AValid _ _ _ | ALink _ _ _ | AFull _ _ _ | CFind _ _
  | RCheck _ _ _ | RLockV _ _ _ | RMark _ _ _ | RGiveUp _ => true
  | AUnlock _ None _ => true
  | RFind _ _ None => true
  | _ => false
  end.

Definition obsfact (o : opk) (r : bool) (h : heap) : Prop :=
  match o, r with
  | OAdd k, false => absent k h = false
  | OContains k, r => absent k h = negb r
  | ORemove k, false => absent k h = true
  | _, _ => False
  end.

Definition mpt (e : entry) : list nat := if Nat.odd (e_pt e) then [Nat.div2 (e_pt e)] else [].
Definition lpl (c : option pend) : list nat :=
  match c with Some pd => match p_lp pd with Some m => [m] | None => [] end | None => [] end.

Section Linz.
Variable progs : list (list opk).
Variable sched : list nat.
Notation ST := (st progs sched).
Notation IR := (ir progs sched).
Notation TID := (tidx sched).

Definition linstep (m t : nat) (o : opk) : Prop :=
  (m < length sched)%nat /\ TID m = t /\
  match o with
  | OAdd k => exists pred nn, pc_of (ST m) t = AFull k pred nn
  | ORemove k => exists pred v, pc_of (ST m) t = RMark k pred v /\ mkd (hp (ST m)) v = false
  | OContains _ => False
  end.

(* the part of the hindsight bookkeeping that does not mention the observation field *)
Definition hind_core (n a : nat) (p : pc) : Prop :=
  match p with
  | RFind _ pred None | CFind _ pred => exists m, (a < m <= n)%nat /\ reach (hp (ST m)) 0 pred
  | RCheck _ _ v | RLockV _ _ v | RMark _ _ v => exists m, (a < m <= n)%nat /\ reach (hp (ST m)) 0 v
  | _ => True
  end.

Record pend_ok (n t : nat) (p : pc) (pd : pend) : Prop := {
  po_inv : (p_inv pd < n)%nat;
  po_for : pc_for (hp (ST n)) p (p_op pd);
  po_lp : match p_lp pd with
          | None => pre_lin p = true
          | Some m => pre_lin p = false /\ (p_inv pd < m < n)%nat /\ linstep m t (p_op pd)
          end;
  po_obs : match p_obs pd with
           | Some m => (p_inv pd < m <= n)%nat /\ absent (op_key (p_op pd)) (hp (ST m)) = true
           | None => forall m, (p_inv pd < m <= n)%nat -> absent (op_key (p_op pd)) (hp (ST m)) = false
           end;
  po_hind : hind_core n (p_inv pd) p;
  po_giveup : forall v, p = RGiveUp v -> p_obs pd <> None }.

Definition entry_ok (n : nat) (e : entry) : Prop :=
  exists a b o r, e_op e = Build_op (N.of_nat a) (N.of_nat b) (sop_of o) (RBool r) /\ (a < b < n)%nat /\
    ((exists m, e_pt e = (2 * m)%nat /\ (a < m <= b)%nat /\ obsfact o r (hp (ST m))) \/
     (exists m t, e_pt e = (2 * m + 1)%nat /\ (a < m <= b)%nat /\ r = true /\ linstep m t o)).

Record TI (n : nat) : Prop := {
  ti_len : length (i_cur (IR n)) = length (ths (ST n));
  ti_thr : forall t th, nth_error (ths (ST n)) t = Some th ->
             match nth t (i_cur (IR n)) None with
             | None => is_busy (at_pc th) = false
             | Some pd => is_busy (at_pc th) = true /\ pend_ok n t (at_pc th) pd
             end;
  ti_log : forall e, In e (i_log (IR n)) -> entry_ok n e;
  ti_perm : Permutation (flat_map mpt (i_log (IR n)) ++ flat_map lpl (i_cur (IR n))) (i_chg (IR n));
  ti_chg_lt : forall m, In m (i_chg (IR n)) -> (m < n)%nat;
  ti_chg_nodup : NoDup (i_chg (IR n));
  ti_chg_frame : forall m, (m < n)%nat -> ~ In m (i_chg (IR n)) -> abs (hp (ST (Datatypes.S m))) = abs (hp (ST m)) }.

Lemma entry_ok_mono n e : entry_ok n e -> entry_ok (Datatypes.S n) e.
Proof.
  intros (a & b & o & r & E & L & X). exists a, b, o, r. split; [exact E|split; [lia|exact X]].
Qed.

(* ---------- the observation field ---------- *)
Lemma obs_upd_lpl h m c : lpl (obs_upd h m c) = lpl c.
Proof.
  destruct c as [pd|]; [|reflexivity]. unfold obs_upd. destruct (p_obs pd); [reflexivity|].
  destruct (absent _ h); reflexivity.
Qed.

(* a pending record that is fine at time n except for the observations of moment n+1 *)
Lemma pend_obs n t p p' pd pd1 :
  pend_ok n t p pd -> p_op pd1 = p_op pd -> p_inv pd1 = p_inv pd -> p_obs pd1 = p_obs pd ->
  pc_for (hp (ST (Datatypes.S n))) p' (p_op pd) ->
  match p_lp pd1 with
  | None => pre_lin p' = true
  | Some m => pre_lin p' = false /\ (p_inv pd < m < Datatypes.S n)%nat /\ linstep m t (p_op pd)
  end ->
  hind_core (Datatypes.S n) (p_inv pd) p' -> (forall v, p' = RGiveUp v -> p_obs pd <> None) ->
  exists pd', obs_upd (hp (ST (Datatypes.S n))) (Datatypes.S n) (Some pd1) = Some pd' /\
              pend_ok (Datatypes.S n) t p' pd'.
Proof.
  intros [PI PF PL PO PH PG] E1 E2 E3 F L Hd Gu.
  assert (L' : match p_lp pd1 with
               | None => pre_lin p' = true
               | Some m => pre_lin p' = false /\ (p_inv pd1 < m < Datatypes.S n)%nat /\ linstep m t (p_op pd1)
               end) by (rewrite E1, E2; exact L).
  unfold obs_upd. rewrite E3. destruct (p_obs pd) as [mo|] eqn:Eo.
  - exists pd1. split; [reflexivity|]. split.
    + rewrite E2. lia.
    + now rewrite E1.
    + exact L'.
    + rewrite E3, E1, E2. destruct PO as [A B]. split; [lia|exact B].
    + now rewrite E2.
    + intros v Ev. rewrite E3. discriminate.
  - rewrite E1. destruct (absent (op_key (p_op pd)) (hp (ST (Datatypes.S n)))) eqn:Ea.
    + exists (set_obs (Datatypes.S n) pd1). split; [reflexivity|]. split; cbn [set_obs p_op p_inv p_lp p_obs].
      * rewrite E2. lia.
      * now rewrite E1.
      * exact L'.
      * rewrite E1, E2. split; [lia|exact Ea].
      * now rewrite E2.
      * intros v Ev. discriminate.
    + exists pd1. split; [reflexivity|]. split.
      * rewrite E2. lia.
      * now rewrite E1.
      * exact L'.
      * rewrite E3, E1, E2. intros m Lm. destruct (Nat.eq_dec m (Datatypes.S n)) as [->|N]; [exact Ea|]. apply PO. lia.
      * now rewrite E2.
      * intros v Ev. exfalso. now apply (Gu v).
Qed.

Lemma hind_core_mono n a p : hind_core n a p -> hind_core (Datatypes.S n) a p.
Proof.
  destruct p; simpl; auto; try (intros (m & L & R); exists m; split; [lia|exact R]).
  destruct mk; auto. intros (m & L & R); exists m; split; [lia|exact R].
Qed.

(* threads that do not move *)
Lemma pend_other n t p pd : pc_ok (hp (ST n)) p -> pend_ok n t p pd ->
  exists pd', obs_upd (hp (ST (Datatypes.S n))) (Datatypes.S n) (Some pd) = Some pd' /\
              pend_ok (Datatypes.S n) t p pd'.
Proof.
  intros P PO. apply (pend_obs n t p p pd pd PO); auto.
  - destruct PO as [_ PF _ _ _ _]. destruct p; simpl in *; auto.
    rewrite (st_key progs sched n (Datatypes.S n) v); [exact PF|lia|exact P].
  - destruct PO as [_ _ PL _ _ _]. destruct (p_lp pd); [|exact PL]. destruct PL as (A & B & C). split; [exact A|split; [lia|exact C]].
  - apply hind_core_mono. now destruct PO.
  - now destruct PO.
Qed.

(* ---------- hindsight, packaged for the traversals ---------- *)
Lemma hind_next n a pred c : (exists m, (a < m <= n)%nat /\ reach (hp (ST m)) 0 pred) ->
  nx (hp (ST n)) pred = Some c -> exists m, (a < m <= Datatypes.S n)%nat /\ reach (hp (ST m)) 0 c.
Proof.
  intros (m & L & R) E. destruct (hindsight progs sched m n pred ltac:(lia) R) as (m' & L' & R' & E').
  exists m'. split; [lia|]. eapply reach_snoc; [exact R'|congruence].
Qed.

Lemma hind_gap n a pred k c : (exists m, (a < m <= n)%nat /\ reach (hp (ST m)) 0 pred) ->
  (pred <> 0%nat -> ky (hp (ST n)) pred < k) -> nx (hp (ST n)) pred = c ->
  match c with Some x => k < ky (hp (ST n)) x | None => True end ->
  exists j, (a < j <= n)%nat /\ absent k (hp (ST j)) = true.
Proof.
  intros (m & L & R) Kp E Kc. destruct (hindsight progs sched m n pred ltac:(lia) R) as (m' & L' & R' & E').
  exists m'. split; [lia|]. pose proof (reach0_valid progs sched m' pred R') as Vp.
  apply (absent_gap (ST m') (st_linv progs sched m') (st_inv2 progs sched m') k pred c R').
  - intros N. rewrite <- (st_key progs sched m' n pred ltac:(lia) Vp). now apply Kp.
  - congruence.
  - destruct c as [x|]; [|exact I]. rewrite E in E'.
    destruct (st_linv progs sched m') as [_ O _]. destruct (O pred x Vp E') as (_ & Vx & _).
    now rewrite <- (st_key progs sched m' n x ltac:(lia) Vx).
Qed.

Lemma hind_dead n a v k : (exists m, (a < m <= n)%nat /\ reach (hp (ST m)) 0 v) -> (a < n)%nat ->
  (1 <= v)%nat -> ky (hp (ST n)) v = k -> live (get (hp (ST n)) v) = false ->
  exists j, (a < j <= n)%nat /\ absent k (hp (ST j)) = true.
Proof.
  intros (m & L & R) Ln Pv K Lv. pose proof (reach0_valid progs sched m v R) as Vm.
  destruct (mkd (hp (ST n)) v) eqn:M.
  - destruct (absent_since_marked progs sched m n v k ltac:(lia) Pv R) as (j & Lj & A); auto.
    + rewrite <- K. symmetry. apply st_key; [lia|exact Vm].
    + exists j. split; [lia|exact A].
  - exists n. split; [lia|].
    assert (Vn : valid (hp (ST n)) v) by (apply (st_valid progs sched m); [lia|exact Vm]).
    apply (absent_unique (ST n) (st_linv progs sched n) (st_inv2 progs sched n) k v Pv); auto.
    apply (i2_r1 _ (st_inv2 progs sched n) v Vn M).
Qed.

Lemma odd_2m1 m : Nat.odd (2 * m + 1) = true.
Proof. rewrite Nat.add_1_r, Nat.odd_succ, Nat.even_mul. reflexivity. Qed.
Lemma odd_2m m : Nat.odd (2 * m) = false.
Proof. rewrite Nat.odd_mul. reflexivity. Qed.
Lemma div2_2m1 m : Nat.div2 (2 * m + 1) = m.
Proof. rewrite Nat.add_1_r. apply Nat.div2_succ_double. Qed.

(* ---------- one step of the acting thread ---------- *)
Section Act.
Variables (n t : nat) (th : thr) (pd : pend).
Hypothesis Ln : (n < length sched)%nat.
Hypothesis Et : TID n = t.
Hypothesis E : nth_error (ths (ST n)) t = Some th.
Hypothesis B : is_busy (at_pc th) = true.
Hypothesis PO : pend_ok n t (at_pc th) pd.

Let h := hp (ST n).
Let LI := st_linv progs sched n.
Let I2 := st_inv2 progs sched n.

Lemma act_next : pc_of (ST (Datatypes.S n)) t = snd (action h t (at_pc th)) /\
                 hp (ST (Datatypes.S n)) = fst (action h t (at_pc th)).
Proof. rewrite (st_S progs sched n Ln), Et. now apply pc_of_step_busy. Qed.

Lemma lp_none_pre : pre_lin (at_pc th) = true -> p_lp pd = None.
Proof.
  intros X. destruct PO as [_ _ PL _ _ _]. destruct (p_lp pd); [|reflexivity]. destruct PL as [Y _]. congruence.
Qed.

Lemma lp_some_post : pre_lin (at_pc th) = false ->
  exists m, p_lp pd = Some m /\ (p_inv pd < m < n)%nat /\ linstep m t (p_op pd).
Proof.
  intros X. destruct PO as [_ _ PL _ _ _]. destruct (p_lp pd) as [m|]; [|congruence]. exists m. tauto.
Qed.

Lemma obs_some j : (p_inv pd < j <= n)%nat -> absent (op_key (p_op pd)) (hp (ST j)) = true ->
  exists m, p_obs pd = Some m /\ (p_inv pd < m <= n)%nat /\ absent (op_key (p_op pd)) (hp (ST m)) = true.
Proof.
  intros Lj A. destruct PO as [_ _ _ PB _ _]. destruct (p_obs pd) as [m|]; [exists m; tauto|].
  rewrite (PB j Lj) in A. discriminate.
Qed.

Lemma pc_of_n : pc_of (ST n) t = at_pc th.
Proof. unfold pc_of. now rewrite E. Qed.

Lemma trans_busy : is_busy (snd (action h t (at_pc th))) = true ->
  let p' := snd (action h t (at_pc th)) in
  pc_for (hp (ST (Datatypes.S n))) p' (p_op pd) /\
  (if lin_pc h (at_pc th) then p_lp pd = None /\ pre_lin p' = false /\ linstep n t (p_op pd)
   else pre_lin p' = pre_lin (at_pc th)) /\
  hind_core (Datatypes.S n) (p_inv pd) p' /\ (forall v, p' = RGiveUp v -> p_obs pd <> None).
Proof.
  pose proof (pcs_ok _ _ _ LI E) as P. pose proof (i2_tk _ I2 _ _ E) as T.
  pose proof lp_none_pre as LPN. pose proof pc_of_n as PCN.
  destruct PO as [PI PF PL PB PH PG].
  fold h in P, T, PF. destruct LI as [L0 O _]. fold h in O.
  destruct (at_pc th) eqn:Ep; try discriminate B; cbn [action]; cbv zeta.
  - (* AFind *) simpl in PF.
    destruct (nx h pred) as [c|]; cbn [snd]; [|intros _; repeat split; auto; discriminate].
    destruct (ky h c <? k); cbn [snd]; [intros _; repeat split; auto; discriminate|].
    destruct (ky h c =? k); [|intros _; repeat split; auto; discriminate].
    destruct (mkd h c); [intros _; repeat split; auto; discriminate|].
    destruct (lkd h c); [discriminate|]. intros _; repeat split; auto; discriminate.
  - (* ALock *) simpl in PF. destruct (acquire h t pred); cbn [snd]; intros _; repeat split; auto; discriminate.
  - (* AValid *) simpl in PF.
    match goal with |- context [if ?b then _ else _] => destruct b end; cbn [snd]; intros _; repeat split; auto; discriminate.
  - (* ALink *) simpl in PF. intros _; repeat split; auto; discriminate.
  - (* AFull *) simpl in PF. intros _. split; [simpl; split; [exact PF|discriminate]|].
    split; [|split; [exact I|discriminate]]. cbn [lin_pc]. split; [now apply LPN|split; [reflexivity|]].
    split; [exact Ln|split; [exact Et|]]. rewrite PF. exists pred, nn. exact PCN.
  - (* AUnlock *) simpl in PF. destruct PF as [PF1 PF2]. destruct res as [b|]; cbn [snd]; [discriminate|].
    intros _; repeat split; auto; discriminate.
  - (* RFind *) simpl in PF. simpl in P. destruct P as [[V K] M]. destruct mk as [v|].
    + destruct (nx h pred) as [c|]; cbn [snd]; [|intros _; repeat split; auto; discriminate].
      destruct (ky h c <? k); cbn [snd]; [intros _; repeat split; auto; discriminate|].
      destruct (ky h c =? k); [|intros _; repeat split; auto; discriminate].
      destruct (Nat.eqb c v); intros _; repeat split; auto; discriminate.
    + simpl in PH. destruct (nx h pred) as [c|] eqn:En; cbn [snd]; [|discriminate].
      destruct (ky h c <? k); cbn [snd].
      * intros _. split; [exact PF|split; [reflexivity|split; [|discriminate]]]. simpl. eapply hind_next; eauto.
      * destruct (ky h c =? k); cbn [snd]; [|discriminate].
        intros _. split; [exact PF|split; [reflexivity|split; [|discriminate]]]. simpl. eapply hind_next; eauto.
  - (* RCheck *) simpl in PF, PH. destruct (lkd h v && negb (mkd h v)); cbn [snd]; [|discriminate].
    intros _. split; [exact PF|split; [reflexivity|split; [|discriminate]]]. simpl.
    destruct PH as (m & Lm & R). exists m. split; [lia|exact R].
  - (* RLockV *) simpl in PF, PH. destruct (acquire h t v); cbn [snd]; intros _;
      (split; [exact PF|split; [reflexivity|split; [|discriminate]]]); simpl;
      destruct PH as (m & Lm & R); exists m; (split; [lia|exact R]).
  - (* RMark *) simpl in PF, PH. simpl in P. destruct P as [[V K] (Pv & Vv & Kv)].
    cbn [lin_pc]. destruct (mkd h v) eqn:Em; cbn [snd negb].
    + intros _. split; [|split; [reflexivity|split; [exact I|]]].
      * simpl. rewrite (st_key progs sched n (Datatypes.S n) v); [fold h; congruence|lia|exact Vv].
      * intros v0 Ev. inversion Ev; subst v0.
        destruct (hind_dead n (p_inv pd) v k PH PI Pv Kv) as (j & Lj & A).
        { unfold live. fold h. rewrite Em. apply andb_false_r. }
        rewrite PF in PB. simpl in PB. destruct (p_obs pd); [discriminate|]. rewrite (PB j Lj) in A. discriminate.
    + intros _. split; [exact PF|split; [|split; [exact I|discriminate]]].
      split; [now apply LPN|split; [reflexivity|]]. split; [exact Ln|split; [exact Et|]].
      rewrite PF. exists pred, v. split; [exact PCN|exact Em].
  - (* RLockP *) simpl in PF. destruct (acquire h t pred); cbn [snd]; intros _; repeat split; auto; discriminate.
  - (* RValid *) simpl in PF.
    match goal with |- context [if ?b then _ else _] => destruct b end; cbn [snd]; intros _; repeat split; auto; discriminate.
  - (* RUnlink *) simpl in PF. intros _; repeat split; auto; discriminate.
  - (* RUnlockV *) simpl in PF. intros _; repeat split; auto; discriminate.
  - (* RUnlockP *) simpl in PF. destruct ok; cbn [snd]; [discriminate|]. intros _; repeat split; auto; discriminate.
  - (* RGiveUp *) discriminate.
  - (* CFind *) simpl in PF, PH. destruct (nx h pred) as [c|] eqn:En; cbn [snd]; [|discriminate].
    destruct (ky h c <? k); cbn [snd].
    + intros _. split; [exact PF|split; [reflexivity|split; [|discriminate]]]. simpl. eapply hind_next; eauto.
    + destruct (ky h c =? k); cbn [snd]; discriminate.
Qed.

Definition done_goal (r : bool) : Prop :=
  entry_ok (Datatypes.S n) (mk_entry pd r n) /\ mpt (mk_entry pd r n) = lpl (Some pd).

Lemma done_mut m : p_lp pd = Some m -> (p_inv pd < m < n)%nat -> linstep m t (p_op pd) ->
  (exists k, p_op pd = OAdd k \/ p_op pd = ORemove k) -> done_goal true.
Proof.
  intros El Lm LS (k & Ek). destruct PO as [PI _ _ _ _ _].
  assert (Ept : point pd true n = (2 * m + 1)%nat) by (unfold point; destruct Ek as [-> | ->]; now rewrite El).
  split.
  - exists (p_inv pd), n, (p_op pd), true. split; [reflexivity|split; [lia|right]].
    exists m, t. cbn [mk_entry e_pt]. split; [exact Ept|split; [lia|split; [reflexivity|exact LS]]].
  - unfold mpt. cbn [mk_entry e_pt lpl]. rewrite Ept, El, odd_2m1, div2_2m1. reflexivity.
Qed.

Lemma done_now r : p_lp pd = None -> point pd r n = (2 * n)%nat -> obsfact (p_op pd) r (hp (ST n)) -> done_goal r.
Proof.
  intros El Ept F. destruct PO as [PI _ _ _ _ _]. split.
  - exists (p_inv pd), n, (p_op pd), r. split; [reflexivity|split; [lia|left]].
    exists n. cbn [mk_entry e_pt]. split; [exact Ept|split; [lia|exact F]].
  - unfold mpt. cbn [mk_entry e_pt lpl]. rewrite Ept, El, odd_2m. reflexivity.
Qed.

Lemma done_hind k : p_lp pd = None -> p_op pd = ORemove k \/ p_op pd = OContains k ->
  (exists j, (p_inv pd < j <= n)%nat /\ absent k (hp (ST j)) = true) -> done_goal false.
Proof.
  intros El Eo (j & Lj & A). destruct PO as [PI _ _ _ _ _].
  assert (Ek : op_key (p_op pd) = k) by (destruct Eo as [-> | ->]; reflexivity).
  destruct (obs_some j Lj ltac:(now rewrite Ek)) as (m & Em & Lm & Am). rewrite Ek in Am.
  assert (Ept : point pd false n = (2 * m)%nat) by (unfold point; destruct Eo as [-> | ->]; now rewrite Em).
  split.
  - exists (p_inv pd), n, (p_op pd), false. split; [reflexivity|split; [lia|left]].
    exists m. cbn [mk_entry e_pt]. split; [exact Ept|split; [lia|]].
    destruct Eo as [-> | ->]; simpl; exact Am.
  - unfold mpt. cbn [mk_entry e_pt lpl]. rewrite Ept, El, odd_2m. reflexivity.
Qed.

Lemma trans_done r : snd (action h t (at_pc th)) = Done r -> done_goal r.
Proof.
  pose proof (pcs_ok _ _ _ LI E) as P. pose proof (i2_tk _ I2 _ _ E) as T.
  pose proof lp_none_pre as LPN. pose proof lp_some_post as LPS.
  pose proof done_mut as DM. pose proof done_now as DN. pose proof done_hind as DH.
  destruct PO as [PI PF PL PB PH PG].
  fold h in P, T, PF. destruct LI as [L0 O _]. fold h in O.
  destruct (at_pc th) eqn:Ep; try discriminate B; cbn [action]; cbv zeta.
  - (* AFind *) simpl in PF, P. destruct P as [V K].
    destruct (nx h pred) as [c|] eqn:En; cbn [snd]; [|discriminate].
    destruct (O pred c V En) as (Pc & Vc & _).
    destruct (ky h c <? k); cbn [snd]; [discriminate|].
    destruct (ky h c =? k) eqn:E2; [|discriminate]. apply Z.eqb_eq in E2.
    destruct (mkd h c) eqn:Em; [discriminate|]. destruct (lkd h c) eqn:El; [|discriminate].
    intros X. inversion X; subst r. apply DN; [now apply LPN|unfold point; now rewrite PF|].
    rewrite PF. simpl. apply (present_live (ST n) k c Pc Vc); [|exact E2].
    unfold live. fold h. now rewrite El, Em.
  - (* ALock *) destruct (acquire h t pred); discriminate.
  - (* AValid *) match goal with |- context [if ?b then _ else _] => destruct b end; discriminate.
  - discriminate.
  - discriminate.
  - (* AUnlock *) simpl in PF. destruct PF as [PF1 PF2]. destruct res as [b|]; cbn [snd]; [|discriminate].
    intros X. inversion X; subst r. destruct b; [|congruence].
    destruct (LPS eq_refl) as (m & El & Lm & LS). apply (DM m El Lm LS). exists k. now left.
  - (* RFind *) simpl in PF. simpl in P. destruct P as [[V K] M]. destruct mk as [v|].
    + destruct (nx h pred) as [c|]; cbn [snd]; [|discriminate].
      destruct (ky h c <? k); cbn [snd]; [discriminate|].
      destruct (ky h c =? k); [|discriminate]. destruct (Nat.eqb c v); discriminate.
    + simpl in PH. destruct (nx h pred) as [c|] eqn:En; cbn [snd].
      * destruct (ky h c <? k) eqn:E1; cbn [snd]; [discriminate|].
        destruct (ky h c =? k) eqn:E2; cbn [snd]; [discriminate|].
        intros X. inversion X; subst r. apply (DH k); [now apply LPN|now left|].
        apply (hind_gap n (p_inv pd) pred k (Some c) PH K En). apply Z.ltb_ge in E1. apply Z.eqb_neq in E2. fold h. lia.
      * intros X. inversion X; subst r. apply (DH k); [now apply LPN|now left|].
        apply (hind_gap n (p_inv pd) pred k None PH K En). exact I.
  - (* RCheck *) simpl in PF, PH. simpl in P. destruct P as [[V K] (Pv & Vv & Kv)].
    destruct (lkd h v && negb (mkd h v)) eqn:El; cbn [snd]; [discriminate|].
    intros X. inversion X; subst r. apply (DH k); [now apply LPN|now left|].
    apply (hind_dead n (p_inv pd) v k PH PI Pv Kv). exact El.
  - (* RLockV *) destruct (acquire h t v); discriminate.
  - (* RMark *) destruct (mkd h v); discriminate.
  - (* RLockP *) destruct (acquire h t pred); discriminate.
  - (* RValid *) match goal with |- context [if ?b then _ else _] => destruct b end; discriminate.
  - discriminate.
  - discriminate.
  - (* RUnlockP *) simpl in PF. destruct ok; cbn [snd]; [|discriminate].
    intros X. inversion X; subst r.
    destruct (LPS eq_refl) as (m & El & Lm & LS). apply (DM m El Lm LS). exists k. now right.
  - (* RGiveUp *) simpl in PF. cbn [snd]. intros X. inversion X; subst r.
    specialize (PG v eq_refl). destruct (p_obs pd) as [m|] eqn:Eo; [|congruence].
    destruct PB as [Lm Am]. apply (DH (ky h v)); [now apply LPN|now left|].
    exists m. split; [exact Lm|]. rewrite PF in Am. exact Am.
  - (* CFind *) simpl in PF, PH, P. destruct P as [V K].
    destruct (nx h pred) as [c|] eqn:En; cbn [snd].
    + destruct (O pred c V En) as (Pc & Vc & _).
      destruct (ky h c <? k) eqn:E1; cbn [snd]; [discriminate|].
      destruct (ky h c =? k) eqn:E2; cbn [snd].
      * apply Z.eqb_eq in E2. intros X. inversion X; subst r. clear X.
        destruct (lkd h c && negb (mkd h c)) eqn:El.
        -- apply DN; [now apply LPN|unfold point; now rewrite PF|]. rewrite PF. simpl.
           apply (present_live (ST n) k c Pc Vc); [exact El|exact E2].
        -- apply (DH k); [now apply LPN|now right|].
           apply (hind_dead n (p_inv pd) c k); auto.
           destruct PH as (m0 & L0' & R0).
           destruct (hindsight progs sched m0 n pred ltac:(lia) R0) as (m' & L' & R' & E').
           exists m'. split; [lia|]. eapply reach_snoc; [exact R'|]. rewrite E'. exact En.
      * intros X. inversion X; subst r. apply (DH k); [now apply LPN|now right|].
        apply (hind_gap n (p_inv pd) pred k (Some c) PH K En). apply Z.ltb_ge in E1. apply Z.eqb_neq in E2. fold h. lia.
    + intros X. inversion X; subst r. apply (DH k); [now apply LPN|now right|].
      apply (hind_gap n (p_inv pd) pred k None PH K En). exact I.
Qed.
End Act.

(* ---------- the trace invariant is kept by every step ---------- *)
Lemma flat_map_upd {A B} (f : A -> list B) (l : list A) t x d : (t < length l)%nat ->
  Permutation (flat_map f (upd l t x) ++ f (nth t l d)) (f x ++ flat_map f l).
Proof.
  intros L. pose proof (upd_perm_app l t x d L) as P. apply (Permutation_flat_map f) in P.
  rewrite flat_map_app in P. simpl in P. rewrite app_nil_r in P. exact P.
Qed.

Lemma step_ths_length s t : length (ths (step s t)) = length (ths s).
Proof.
  unfold step. destruct (nth_error (ths s) t) as [th|]; [|reflexivity].
  destruct (thr_step (hp s) t th). cbn [ths]. apply upd_length.
Qed.

Lemma NoDup_snoc {A} (l : list A) x : NoDup l -> ~ In x l -> NoDup (l ++ [x]).
Proof.
  intros N I. eapply Permutation_NoDup; [apply Permutation_cons_append|]. now constructor.
Qed.

Lemma lin_not_done h t p : lin_pc h p = true -> is_busy (snd (action h t p)) = true.
Proof.
  destruct p; simpl; try discriminate; [reflexivity|]. intros X. apply negb_true_iff in X. now rewrite X.
Qed.

Section Step.
Variable n : nat.
Hypothesis Ln : (n < length sched)%nat.
Hypothesis TIn : TI n.

Let t0 := TID n.
Let s := ST n.
Let cur := i_cur (IR n).
Let h' := hp (ST (Datatypes.S n)).

(* assemble TI (n+1) from a description of what the step did to the bookkeeping *)
Lemma ti_build X log' chg' :
  i_cur (IR (Datatypes.S n)) = map (obs_upd h' (Datatypes.S n)) X ->
  i_log (IR (Datatypes.S n)) = log' -> i_chg (IR (Datatypes.S n)) = chg' ->
  length X = length cur ->
  (forall t, t <> t0 -> nth t X None = nth t cur None) ->
  (forall th', nth_error (ths (ST (Datatypes.S n))) t0 = Some th' ->
     match obs_upd h' (Datatypes.S n) (nth t0 X None) with
     | None => is_busy (at_pc th') = false
     | Some pd' => is_busy (at_pc th') = true /\ pend_ok (Datatypes.S n) t0 (at_pc th') pd'
     end) ->
  (forall e, In e log' -> entry_ok (Datatypes.S n) e) ->
  Permutation (flat_map mpt log' ++ flat_map lpl X) chg' ->
  (chg' = i_chg (IR n) \/ chg' = i_chg (IR n) ++ [n]) ->
  (~ In n chg' -> abs (hp (ST (Datatypes.S n))) = abs (hp (ST n))) ->
  TI (Datatypes.S n).
Proof.
  intros Ec El Eg LX OT T0 LG PM CH FR. destruct TIn as [TL TT TLG TP TCL TCN TCF].
  assert (SS : ST (Datatypes.S n) = step s t0) by (apply st_S; exact Ln).
  split.
  - rewrite Ec, map_length, LX. unfold cur. rewrite TL, SS. symmetry. apply step_ths_length.
  - intros t th E. rewrite Ec. change None with (obs_upd h' (Datatypes.S n) None) at 1. rewrite map_nth.
    destruct (Nat.eq_dec t t0) as [->|N]; [now apply T0|].
    rewrite (OT t N). rewrite SS in E. rewrite step_other in E by exact N. fold s in TT.
    specialize (TT t th E). unfold cur. destruct (nth t (i_cur (IR n)) None) as [pd|]; [|exact TT].
    destruct TT as [Bz PO].
    destruct (pend_other n t (at_pc th) pd (pcs_ok _ _ _ (st_linv progs sched n) E) PO) as (pd' & Eo & PO').
    unfold h'. rewrite Eo. split; [exact Bz|exact PO'].
  - intros e He. rewrite El in He. now apply LG.
  - rewrite Ec, El, Eg.
    assert (FM : flat_map lpl (map (obs_upd h' (Datatypes.S n)) X) = flat_map lpl X).
    { clear. induction X as [|c X IH]; [reflexivity|]. simpl. now rewrite obs_upd_lpl, IH. }
    rewrite FM. exact PM.
  - intros m Hm. rewrite Eg in Hm. destruct CH as [-> | ->].
    + specialize (TCL m Hm). lia.
    + apply in_app_or in Hm as [Hm|[<-|[]]]; [specialize (TCL m Hm)|]; lia.
  - rewrite Eg. destruct CH as [-> | ->]; [exact TCN|]. apply NoDup_snoc; [exact TCN|].
    intros Hin. specialize (TCL n Hin). lia.
  - intros m Lm Nm. rewrite Eg in Nm. destruct (Nat.eq_dec m n) as [->|Ne]; [now apply FR|].
    apply TCF; [lia|]. intros Hin. apply Nm. destruct CH as [-> | ->]; [exact Hin|]. apply in_or_app. now left.
Qed.

Lemma istep_fields g t :
  let s := i_s g in let n := i_n g in let cur1 := own_upd s n t (i_cur g) in
  let fin := match fin_res s t, nth t cur1 None with Some r, Some pd => Some (r, pd) | _, _ => None end in
  i_cur (istep g t) = map (obs_upd (hp (step s t)) (Datatypes.S n)) (match fin with Some _ => upd cur1 t None | None => cur1 end) /\
  i_log (istep g t) = (match fin with Some (r, pd) => i_log g ++ [mk_entry pd r n] | None => i_log g end) /\
  i_chg (istep g t) = (if is_busy (pc_of s t) && lin_pc (hp s) (pc_of s t) then i_chg g ++ [n] else i_chg g).
Proof.
  cbv zeta. unfold istep. destruct (fin_res (i_s g) t); [destruct (nth t (own_upd _ _ _ _) None)|]; auto.
Qed.

Theorem ti_step : TI (Datatypes.S n).
Proof.
  pose proof TIn as TIn'. destruct TIn' as [TL TT TLG TP TCL TCN TCF].
  assert (SS : ST (Datatypes.S n) = step s t0) by (apply st_S; exact Ln).
  assert (IS : IR (Datatypes.S n) = istep (IR n) t0) by (apply ir_S; exact Ln).
  assert (IN : i_n (IR n) = n) by (apply ir_n; lia).
  destruct (istep_fields (IR n) t0) as (FC & FL & FG). rewrite IN in FC, FL, FG.
  change (i_s (IR n)) with s in FC, FL, FG. fold cur in FC, FL. rewrite <- IS in FC, FL, FG. rewrite <- SS in FC. fold h' in FC.
  destruct (nth_error (ths s) t0) as [th|] eqn:E.
  2:{ (* no such thread *)
    assert (PC : pc_of s t0 = Idle) by (unfold pc_of; now rewrite E).
    assert (OU : own_upd s n t0 cur = cur) by (unfold own_upd; now rewrite E).
    assert (FR : fin_res s t0 = None) by (unfold fin_res; now rewrite PC).
    rewrite OU, FR in FC, FL. rewrite PC in FG. cbn [is_busy andb] in FG.
    apply (ti_build cur (i_log (IR n)) (i_chg (IR n))); auto.
    - intros th' E'. rewrite SS in E'. unfold step in E'. rewrite E in E'. fold s in E'. congruence.
    - intros e He. apply entry_ok_mono. now apply TLG.
    - intros _. rewrite SS. unfold step. now rewrite E. }
  assert (PC : pc_of s t0 = at_pc th) by (unfold pc_of; now rewrite E).
  assert (Lt : (t0 < length cur)%nat).
  { unfold cur. rewrite TL. apply nth_error_Some. fold s. congruence. }
  specialize (TT t0 th E). fold cur in TT.
  destruct (step_thread s t0 th E) as [TH' HP'].
  destruct (is_busy (at_pc th)) eqn:Bz.
  - (* the thread is inside an operation *)
    destruct (nth t0 cur None) as [pd|] eqn:Ecur; [|congruence]. destruct TT as [_ PO].
    destruct (pc_of_step_busy s t0 th E Bz) as [PC' HP2]. rewrite <- SS in PC', HP2.
    assert (TH2 : forall th', nth_error (ths (ST (Datatypes.S n))) t0 = Some th' ->
              at_pc th' = snd (action (hp s) t0 (at_pc th))).
    { intros th' E'. unfold pc_of in PC'. now rewrite E' in PC'. }
    assert (NL : lin_pc (hp s) (at_pc th) = false -> abs (hp (ST (Datatypes.S n))) = abs (hp (ST n))).
    { intros X. destruct (list_eq_dec Z.eq_dec (abs (hp (ST (Datatypes.S n)))) (abs (hp (ST n)))) as [Q|Q]; [exact Q|].
      exfalso. rewrite SS in Q. destruct (lazy_abs_frame s t0 (st_linv progs sched n) Q) as (th2 & E2 & LS).
      rewrite E in E2. inversion E2; subst th2.
      destruct LS as [(k & pr & nn & Ep)|(k & pr & v & Ep & Mv)]; rewrite Ep in X; simpl in X; [discriminate|].
      fold s in X. rewrite Mv in X. discriminate. }
    destruct (is_busy (snd (action (hp s) t0 (at_pc th)))) eqn:Bz'.
    + (* it continues *)
      assert (FR : fin_res s t0 = None).
      { unfold fin_res. rewrite PC, Bz. rewrite <- SS, PC'. destruct (snd (action (hp s) t0 (at_pc th))); auto; discriminate. }
      rewrite FR in FC, FL. rewrite PC, Bz in FG. cbn [andb] in FG.
      destruct (trans_busy n t0 th pd Ln eq_refl E Bz PO Bz') as (F1 & F2 & F3 & F4). cbv zeta in F1, F2, F3, F4.
      change (hp (ST n)) with (hp s) in F2.
      destruct (lin_pc (hp s) (at_pc th)) eqn:Lp.
      * (* the linearization step *)
        destruct F2 as (F2a & F2b & F2c).
        assert (OU : own_upd s n t0 cur = upd cur t0 (Some (set_lp n pd))).
        { unfold own_upd. rewrite E, Bz, Lp, Ecur. reflexivity. }
        rewrite OU in FC.
        apply (ti_build (upd cur t0 (Some (set_lp n pd))) (i_log (IR n)) (i_chg (IR n) ++ [n])); auto.
        -- now rewrite upd_length.
        -- intros t N. apply nth_upd_other. congruence.
        -- intros th' E'. rewrite nth_upd_same by exact Lt. rewrite (TH2 th' E').
           destruct (pend_obs n t0 (at_pc th) (snd (action (hp s) t0 (at_pc th))) pd (set_lp n pd) PO eq_refl eq_refl eq_refl F1)
             as (pd' & Eo & PO'); auto.
           { cbn [set_lp p_lp]. split; [exact F2b|split; [|exact F2c]]. destruct PO. lia. }
           fold h' in Eo. rewrite Eo. split; [exact Bz'|exact PO'].
        -- intros e He. apply entry_ok_mono. now apply TLG.
        -- pose proof (flat_map_upd lpl cur t0 (Some (set_lp n pd)) None Lt) as FM. rewrite Ecur in FM.
           cbn [lpl set_lp p_lp] in FM. rewrite F2a in FM. cbn [app] in FM. rewrite app_nil_r in FM.
           fold cur in TP.
           eapply perm_trans; [apply Permutation_app_head; exact FM|].
           eapply perm_trans; [symmetry; apply Permutation_middle|].
           eapply perm_trans; [|apply Permutation_cons_append]. constructor. exact TP.
        -- intros X. exfalso. apply X. apply in_or_app. right. now left.
      * (* an ordinary step *)
        assert (OU : own_upd s n t0 cur = cur) by (unfold own_upd; now rewrite E, Bz, Lp).
        rewrite OU in FC.
        apply (ti_build cur (i_log (IR n)) (i_chg (IR n))); auto.
        -- intros th' E'. rewrite Ecur. rewrite (TH2 th' E').
           destruct (pend_obs n t0 (at_pc th) (snd (action (hp s) t0 (at_pc th))) pd pd PO eq_refl eq_refl eq_refl F1)
             as (pd' & Eo & PO'); auto.
           { destruct PO as [_ _ PL _ _ _]. rewrite F2. destruct (p_lp pd); [|exact PL].
             destruct PL as (A & B0 & C). split; [exact A|split; [lia|exact C]]. }
           fold h' in Eo. rewrite Eo. split; [exact Bz'|exact PO'].
        -- intros e He. apply entry_ok_mono. now apply TLG.
    + (* it completes its operation *)
      destruct (snd (action (hp s) t0 (at_pc th))) as [|r| | | | | | | | | | | | | | | | |] eqn:Ea; try discriminate Bz'.
      { (* Idle is never the result of an action of a busy thread *)
        exfalso. clear - Ea Bz. destruct (at_pc th); try discriminate Bz; cbn [action] in Ea;
          repeat match type of Ea with
                 | context [match ?x with _ => _ end] => destruct x
                 | context [if ?b then _ else _] => destruct b
                 end; cbn [snd] in Ea; discriminate. }
      assert (Lp : lin_pc (hp s) (at_pc th) = false).
      { destruct (lin_pc (hp s) (at_pc th)) eqn:X; [|reflexivity]. apply (lin_not_done _ t0) in X. rewrite Ea in X. discriminate. }
      assert (OU : own_upd s n t0 cur = cur) by (unfold own_upd; now rewrite E, Bz, Lp).
      assert (FR : fin_res s t0 = Some r).
      { unfold fin_res. rewrite PC, Bz. rewrite <- SS, PC'. reflexivity. }
      rewrite OU, FR, Ecur in FC, FL. rewrite PC, Bz, Lp in FG. cbn [andb] in FG.
      destruct (trans_done n t0 th pd Ln eq_refl E Bz PO r Ea) as [D1 D2].
      apply (ti_build (upd cur t0 None) (i_log (IR n) ++ [mk_entry pd r n]) (i_chg (IR n))); auto.
      * now rewrite upd_length.
      * intros t N. apply nth_upd_other. congruence.
      * intros th' E'. rewrite nth_upd_same by exact Lt. cbn [obs_upd]. rewrite (TH2 th' E'). reflexivity.
      * intros e He. apply in_app_or in He as [He|[<-|[]]]; [apply entry_ok_mono; now apply TLG|exact D1].
      * pose proof (flat_map_upd lpl cur t0 None None Lt) as FM. rewrite Ecur in FM. cbn [lpl app] in FM.
        change (match p_lp pd with Some m => [m] | None => [] end) with (lpl (Some pd)) in FM.
        rewrite flat_map_app. cbn [flat_map]. rewrite app_nil_r, D2. rewrite <- app_assoc.
        fold cur in TP. eapply perm_trans; [|exact TP]. apply Permutation_app_head.
        eapply perm_trans; [apply Permutation_app_comm|exact FM].
  - (* the thread is between operations *)
    destruct (nth t0 cur None) as [pd|] eqn:Ecur; [destruct TT; congruence|].
    assert (FR : fin_res s t0 = None) by (unfold fin_res; now rewrite PC, Bz).
    rewrite FR in FC, FL. rewrite PC, Bz in FG. cbn [andb] in FG.
    assert (HS : hp (step s t0) = hp s).
    { rewrite HP'. unfold thr_step. destruct (at_pc th); try discriminate Bz; destruct (todo th); reflexivity. }
    assert (AB : abs (hp (ST (Datatypes.S n))) = abs (hp (ST n))) by (rewrite SS, HS; reflexivity).
    destruct (todo th) as [|o rest] eqn:Etd.
    + assert (OU : own_upd s n t0 cur = cur) by (unfold own_upd; now rewrite E, Bz, Etd).
      rewrite OU in FC.
      apply (ti_build cur (i_log (IR n)) (i_chg (IR n))); auto.
      * intros th' E'. rewrite Ecur. cbn [obs_upd]. rewrite SS, TH' in E'. inversion E'; subst th'.
        unfold thr_step. destruct (at_pc th); try discriminate Bz; rewrite Etd; reflexivity.
      * intros e He. apply entry_ok_mono. now apply TLG.
    + (* the thread starts its next operation *)
      set (fresh := {| p_op := o; p_inv := n; p_lp := None; p_obs := None |}).
      assert (OU : own_upd s n t0 cur = upd cur t0 (Some fresh)) by (unfold own_upd; now rewrite E, Bz, Etd).
      rewrite OU in FC.
      apply (ti_build (upd cur t0 (Some fresh)) (i_log (IR n)) (i_chg (IR n))); auto.
      * now rewrite upd_length.
      * intros t N. apply nth_upd_other. congruence.
      * intros th' E'. rewrite nth_upd_same by exact Lt. rewrite SS, TH' in E'. inversion E'; subst th'.
        assert (EP : at_pc (snd (thr_step (hp s) t0 th)) = start o).
        { unfold thr_step. destruct (at_pc th); try discriminate Bz; rewrite Etd; reflexivity. }
        rewrite EP.
        assert (CORE : forall pd', p_op pd' = o -> p_inv pd' = n -> p_lp pd' = None ->
                   match p_obs pd' with
                   | Some m => (n < m <= Datatypes.S n)%nat /\ absent (op_key o) (hp (ST m)) = true
                   | None => forall m, (n < m <= Datatypes.S n)%nat -> absent (op_key o) (hp (ST m)) = false
                   end -> is_busy (start o) = true /\ pend_ok (Datatypes.S n) t0 (start o) pd').
        { intros pd' Q1 Q2 Q3 Q4. split; [destruct o; reflexivity|]. split; rewrite ?Q1, ?Q2, ?Q3.
          - lia.
          - destruct o; reflexivity.
          - destruct o; reflexivity.
          - exact Q4.
          - destruct o; simpl; auto; exists (Datatypes.S n); (split; [lia|apply reach_refl]).
          - intros v Ev. destruct o; discriminate Ev. }
        cbn [obs_upd fresh p_obs p_op]. destruct (absent (op_key o) h') eqn:Ab.
        -- apply CORE; auto. cbn [set_obs p_obs]. split; [lia|exact Ab].
        -- apply CORE; auto. cbn [p_obs]. intros m Lm. assert (m = Datatypes.S n) by lia. subst m. exact Ab.
      * intros e He. apply entry_ok_mono. now apply TLG.
      * pose proof (flat_map_upd lpl cur t0 (Some fresh) None Lt) as FM. rewrite Ecur in FM.
        cbn [lpl fresh p_lp app] in FM. rewrite app_nil_r in FM. rewrite FM. exact TP.
Qed.
End Step.

Lemma ti_0 : TI 0.
Proof.
  assert (I0 : IR 0 = iinit progs) by reflexivity.
  split; rewrite ?I0; cbn [iinit i_cur i_log i_chg].
  - unfold st. rewrite I0. cbn [iinit i_s init ths]. now rewrite !map_length.
  - intros t th E. unfold st in E. rewrite I0 in E. cbn [iinit i_s init ths] in E.
    assert (X : nth t (map (fun _ : list opk => @None pend) progs) None = None).
    { clear. revert t. induction progs as [|a l IH]; intros [|t]; simpl; auto. }
    rewrite X. apply nth_error_In in E. apply in_map_iff in E as (q & <- & _). reflexivity.
  - intros e [].
  - simpl. assert (X : flat_map lpl (map (fun _ : list opk => @None pend) progs) = []).
    { clear. induction progs as [|a l IH]; simpl; auto. }
    rewrite X. constructor.
  - intros m [].
  - constructor.
  - intros m Lm. lia.
Qed.

Theorem ti_all n : (n <= length sched)%nat -> TI n.
Proof.
  induction n as [|n IH]; intros L; [apply ti_0|]. apply ti_step; [lia|apply IH; lia].
Qed.
End Linz.
