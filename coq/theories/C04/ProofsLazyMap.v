(* C04 (stretch): invariants of the LazyMap protocol model (skipmap bottom lane WITH values), for ALL programs
   and ALL schedules, run from the initial state (header only).
   Operations: Store / Load / LoadAndDelete / LoadOrStore / LoadOrStoreLazy / Delete (the last three added later:
   their program counters only add cases to the proofs; linearizability is in Lzm*.v).

   For the repaired and the pre-repair code (any [rep]):
     lazymap_inv            order invariant, index facts of every program counter, lock bookkeeping
     lazymap_lock_owner     lock n = Some t  <->  n is in [held] of the program counter of thread t; a step of
                            another thread never changes the lock field of a node locked by t
   For the repaired code (rep = true):
     lazymap_value_write    a step that changes the value of an existing node is made by the holder of its lock, on a
                            node that is fully linked and not marked; marked is only set by the holder of the lock
     lazymap_marked_frozen  once marked, the value of a node never changes again (any schedule extension)
     lazymap_lad_victim_marked / lazymap_lad_mark_step / lazymap_lad_returns_last / lazymap_lad_returns_marked_value
                            LoadAndDelete returns the value its victim had when it marked it: no Store is lost
     lazymap_store_visible  the writing step of Store (existing node) and the fullyLinked step (new node) leave
                            the pair (k, v) in the abstract map {(key n, value n) | linked n, not marked n}
   For the pre-repair code (rep = false):
     lazymap_prerepair_refuted            a step writes the value of a node that is marked (and unlocked)
     lazymap_prerepair_history_rejected   the history of that complete run is rejected by the verified
                                          linearizability checker; lazymap_repaired_history_accepted: the
                                          comparable run of the repaired code is accepted. *)
From VF Require Import Common.Base C04.LazyMap.
From VF Require Common.Hist C04.Spec C04.Check.
Local Open Scope Z_scope.

Definition valid (h : heap) (i : nat) : Prop := (i < length h)%nat.

(* ---------- setn / get ---------- *)
Lemma nth_error_get h i n : nth_error h i = Some n -> n = get h i /\ valid h i.
Proof.
  intros H. split; [|apply nth_error_Some; congruence].
  unfold get. symmetry. now apply nth_error_nth.
Qed.

Lemma setn_length h i f : length (setn h i f) = length h.
Proof. unfold setn. destruct (nth_error h i); [apply upd_length|reflexivity]. Qed.

Lemma get_setn_same h i f : valid h i -> get (setn h i f) i = f (get h i).
Proof.
  intros V. unfold setn. destruct (nth_error h i) as [n|] eqn:E.
  - destruct (nth_error_get _ _ _ E) as [-> _]. unfold get at 1. now apply nth_upd_same.
  - apply nth_error_None in E. unfold valid in V. lia.
Qed.

Lemma get_setn_other h i j f : j <> i -> get (setn h i f) j = get h j.
Proof.
  intros N. unfold setn. destruct (nth_error h i); [|reflexivity]. unfold get. apply nth_upd_other. congruence.
Qed.

Lemma setn_invalid h i f : ~ valid h i -> setn h i f = h.
Proof.
  intros V. unfold setn. destruct (nth_error h i) eqn:E; [|reflexivity].
  exfalso. apply V. apply nth_error_Some. congruence.
Qed.

Lemma get_invalid h i : ~ valid h i -> get h i = dflt.
Proof. intros V. unfold get. apply nth_overflow. unfold valid in V. lia. Qed.

(* a field that f does not change *)
Lemma fld_setn {A} (P : nd -> A) h i j f : (forall n, P (f n) = P n) -> P (get (setn h i f) j) = P (get h j).
Proof.
  intros Hf. destruct (Nat.eq_dec j i) as [->|N]; [|now rewrite get_setn_other].
  destruct (lt_dec i (length h)) as [V|V].
  - rewrite get_setn_same by exact V. apply Hf.
  - now rewrite setn_invalid.
Qed.

(* a flag that f can only raise *)
Lemma mono_setn (P : nd -> bool) h i j f :
  (forall n, P n = true -> P (f n) = true) -> P (get h j) = true -> P (get (setn h i f) j) = true.
Proof.
  intros Hf H. destruct (Nat.eq_dec j i) as [->|N]; [|now rewrite get_setn_other].
  destruct (lt_dec i (length h)) as [V|V].
  - rewrite get_setn_same by exact V. now apply Hf.
  - now rewrite setn_invalid.
Qed.

Lemma get_app_old h n i : valid h i -> get (h ++ [n]) i = get h i.
Proof. intros V. unfold get. now apply app_nth1. Qed.

Lemma get_app_new h n : get (h ++ [n]) (length h) = n.
Proof. unfold get. rewrite app_nth2 by lia. now rewrite Nat.sub_diag. Qed.

Lemma marked_valid h i : marked (get h i) = true -> valid h i.
Proof.
  intros M. destruct (lt_dec i (length h)) as [V|V]; [exact V|]. rewrite get_invalid in M by exact V. discriminate.
Qed.

Lemma linked_valid h i : linked (get h i) = true -> valid h i.
Proof.
  intros M. destruct (lt_dec i (length h)) as [V|V]; [exact V|]. rewrite get_invalid in M by exact V. discriminate.
Qed.

Lemma lock_valid h i t : lock (get h i) = Some t -> valid h i.
Proof.
  intros M. destruct (lt_dec i (length h)) as [V|V]; [exact V|]. rewrite get_invalid in M by exact V. discriminate.
Qed.

(* functions that keep key and next and can only raise the flags *)
Definition flag_fn (f : nd -> nd) : Prop :=
  (forall n, key (f n) = key n) /\ (forall n, next (f n) = next n) /\
  (forall n, marked n = true -> marked (f n) = true) /\ (forall n, linked n = true -> linked (f n) = true).
Definition mono_fn (f : nd -> nd) : Prop :=
  (forall n, key (f n) = key n) /\
  (forall n, marked n = true -> marked (f n) = true) /\ (forall n, linked n = true -> linked (f n) = true).

Lemma ff_lock x : flag_fn (set_lock x).   Proof. repeat split; auto. Qed.
Lemma ff_marked : flag_fn set_marked.      Proof. repeat split; auto. Qed.
Lemma ff_linked : flag_fn set_linked.      Proof. repeat split; auto. Qed.
Lemma ff_value x : flag_fn (set_value x).  Proof. repeat split; auto. Qed.
Lemma mf_next x : mono_fn (set_next x).    Proof. repeat split; auto. Qed.
Lemma ff_mono f : flag_fn f -> mono_fn f.  Proof. intros (A & B & C & D). repeat split; auto. Qed.
Global Hint Resolve ff_lock ff_marked ff_linked ff_value mf_next ff_mono : lzm.

(* ---------- the order invariant ---------- *)
Definition ord (h : heap) : Prop :=
  forall i m, valid h i -> next (get h i) = Some m ->
    (1 <= m)%nat /\ valid h m /\ (i <> 0%nat -> key (get h i) < key (get h m)).

(* h' extends h: indices stay valid, keys never change, the flags marked and linked are never reset *)
Definition ext (h h' : heap) : Prop :=
  (length h <= length h')%nat /\ (forall i, valid h i -> key (get h' i) = key (get h i)) /\
  (forall i, marked (get h i) = true -> marked (get h' i) = true) /\
  (forall i, linked (get h i) = true -> linked (get h' i) = true).

Lemma ext_refl h : ext h h.
Proof. repeat split; auto. Qed.

Lemma ext_setn h i f : mono_fn f -> ext h (setn h i f).
Proof.
  intros (Hk & Hm & Hl). split; [rewrite setn_length; lia|]. split; [|split].
  - intros j _. now apply (fld_setn key).
  - intros j. now apply (mono_setn marked).
  - intros j. now apply (mono_setn linked).
Qed.

Lemma ext_trans a b c : ext a b -> ext b c -> ext a c.
Proof.
  intros (L1 & K1 & M1 & F1) (L2 & K2 & M2 & F2). split; [lia|]. split; [|split]; auto.
  intros i V. rewrite K2 by (unfold valid in *; lia). now apply K1.
Qed.

Lemma ext_app h n : ext h (h ++ [n]).
Proof.
  split; [rewrite app_length; simpl; lia|]. split; [|split].
  - intros i V. now rewrite get_app_old.
  - intros i M. rewrite get_app_old; [exact M|now apply marked_valid].
  - intros i M. rewrite get_app_old; [exact M|now apply linked_valid].
Qed.

Lemma ord_setn_flags h i f : flag_fn f -> ord h -> ord (setn h i f).
Proof.
  intros (Hk & Hn & _ & _) O j m V E. unfold valid in *. rewrite setn_length in *.
  rewrite (fld_setn next) in E by exact Hn.
  destruct (O j m V E) as (A & B & C). rewrite !(fld_setn key) by exact Hk. auto.
Qed.

Definition target_ok (h : heap) (i : nat) (x : option nat) : Prop :=
  match x with
  | None => True
  | Some m => (1 <= m)%nat /\ valid h m /\ (i <> 0%nat -> key (get h i) < key (get h m))
  end.

Lemma ord_set_next h i x : ord h -> valid h i -> target_ok h i x -> ord (setn h i (set_next x)).
Proof.
  intros O V T j m Vj E. unfold valid in *. rewrite setn_length in *.
  rewrite !(fld_setn key) by reflexivity.
  destruct (Nat.eq_dec j i) as [->|N].
  - rewrite get_setn_same in E by exact V. simpl in E. subst x. exact T.
  - rewrite get_setn_other in E by exact N. now apply O.
Qed.

Lemma ord_app h n : ord h ->
  match next n with
  | None => True
  | Some m => (1 <= m)%nat /\ valid h m /\ key n < key (get h m)
  end -> ord (h ++ [n]).
Proof.
  intros O T j m V E. unfold valid in *. rewrite app_length in *. simpl in *.
  destruct (Nat.eq_dec j (length h)) as [->|N].
  - rewrite get_app_new in *. rewrite E in T. destruct T as (A & B & C).
    split; [exact A|split; [unfold valid in B; lia|]]. intros _. rewrite get_app_old by exact B. exact C.
  - assert (Vj : valid h j) by (unfold valid; lia). rewrite get_app_old in * by exact Vj.
    destruct (O j m Vj E) as (A & B & C). split; [exact A|split; [unfold valid in B; lia|]].
    rewrite get_app_old by exact B. exact C.
Qed.

(* ---------- what a program counter knows about indices and keys ---------- *)
Definition lt_key (h : heap) (pred : nat) (k : Z) : Prop :=
  valid h pred /\ (pred <> 0%nat -> key (get h pred) < k).
Definition succ_ok (h : heap) (k : Z) (succ : option nat) : Prop :=
  match succ with None => True | Some m => (1 <= m)%nat /\ valid h m /\ k < key (get h m) end.
Definition victim_ok (h : heap) (k : Z) (v : nat) : Prop := (1 <= v)%nat /\ valid h v /\ key (get h v) = k.

Definition pc_ok (h : heap) (p : pc) : Prop :=
  match p with
  | Idle | Done _ _ => True
  | SFind k _ pred | LFind k pred => lt_key h pred k
  | SLock k _ pred succ | SValid k _ pred succ | SLink k _ pred succ => lt_key h pred k /\ succ_ok h k succ
  | SFull k _ pred nn => valid h pred /\ victim_ok h k nn
  | SUnlock _ _ pred _ => valid h pred
  | SLockN k _ c | SChkM k _ c | SWaitL k _ c | SWrite k _ c | SUnlockN k _ c _
  | SChkM0 k _ c | SWrite0 k _ c | LFlags k c => victim_ok h k c
  | RFind k pred mk => lt_key h pred k /\ match mk with Some v => victim_ok h k v | None => True end
  | RCheck k pred v | RLockV k pred v | RMark k pred v | RLockP k pred v | RValid k pred v
  | RUnlink k pred v | RUnlockV k pred v | RUnlockP k pred v _ => lt_key h pred k /\ victim_ok h k v
  | RGiveUp v | RRead v | LRead v => valid h v
  | OFind k _ _ _ pred => lt_key h pred k
  | OLock k _ _ _ pred succ | OValid k _ _ _ pred succ | OCall k _ _ _ pred succ | OLink k _ _ _ pred succ =>
      lt_key h pred k /\ succ_ok h k succ
  | OFull k _ _ _ pred nn => valid h pred /\ victim_ok h k nn
  | OUnlock _ _ _ _ pred _ => valid h pred
  | OChkM k _ _ _ c | OWaitL k _ _ _ c | ORead k _ _ _ c => victim_ok h k c
  end.

Lemma valid_ext h h' i : ext h h' -> valid h i -> valid h' i.
Proof. intros [L _] V. unfold valid in *. lia. Qed.

Lemma lt_key_ext h h' p k : ext h h' -> lt_key h p k -> lt_key h' p k.
Proof.
  intros E [V K]. split; [eapply valid_ext; eauto|]. intros N. destruct E as (_ & E & _). rewrite E by exact V. auto.
Qed.

Lemma succ_ok_ext h h' k s : ext h h' -> succ_ok h k s -> succ_ok h' k s.
Proof.
  intros E. destruct s as [m|]; simpl; [|auto]. intros (A & B & C).
  split; [exact A|split; [eapply valid_ext; eauto|]]. destruct E as (_ & E & _). now rewrite E.
Qed.

Lemma victim_ok_ext h h' k v : ext h h' -> victim_ok h k v -> victim_ok h' k v.
Proof.
  intros E (A & B & C). split; [exact A|split; [eapply valid_ext; eauto|]]. destruct E as (_ & E & _). now rewrite E.
Qed.

Lemma pc_ok_ext h h' p : ext h h' -> pc_ok h p -> pc_ok h' p.
Proof.
  intros E. destruct p; try destruct mk; simpl; intros H;
    intuition (eauto using lt_key_ext, succ_ok_ext, victim_ok_ext, valid_ext).
Qed.

Lemma lt_key_0 h k : (1 <= length h)%nat -> lt_key h 0 k.
Proof. intros L. split; [exact L|congruence]. Qed.

Lemma acquire_some h t i h' : acquire h t i = Some h' -> h' = setn h i (set_lock (Some t)) /\ lock (get h i) = None.
Proof. unfold acquire. destruct (lock (get h i)); [discriminate|]. intros E. split; congruence. Qed.

Lemma pred_neq_victim h k pred v : lt_key h pred k -> victim_ok h k v -> v <> pred.
Proof. intros [_ K] (A & _ & C) ->. assert (N : pred <> 0%nat) by lia. specialize (K N). lia. Qed.

(* ---------- one action keeps the order invariant and the index facts ---------- *)
Lemma action_ok rep h t p : (1 <= length h)%nat -> ord h -> pc_ok h p ->
  ext h (fst (action rep h t p)) /\ ord (fst (action rep h t p)) /\
  pc_ok (fst (action rep h t p)) (snd (action rep h t p)).
Proof.
  intros L O P.
  assert (SAME : forall q, pc_ok h q -> ext h h /\ ord h /\ pc_ok h q) by (intros; auto using ext_refl).
  assert (FLAG : forall i f q, flag_fn f -> pc_ok h q ->
             ext h (setn h i f) /\ ord (setn h i f) /\ pc_ok (setn h i f) q).
  { intros i f q Hf Q. split; [apply ext_setn; auto with lzm|split; [now apply ord_setn_flags|]].
    eapply pc_ok_ext; [apply ext_setn; auto with lzm|exact Q]. }
  destruct p; cbn [action fst snd].
  - now apply SAME.
  - now apply SAME.
  - (* SFind *) simpl in P. destruct P as [V K].
    destruct (next (get h pred)) as [c|] eqn:En; cbn [fst snd].
    + destruct (O pred c V En) as (A & B & C).
      destruct (key (get h c) <? k) eqn:E1; cbn [fst snd].
      * apply SAME. simpl. split; [exact B|]. intros _. now apply Z.ltb_lt.
      * destruct (key (get h c) =? k) eqn:E2; cbn [fst snd].
        -- apply Z.eqb_eq in E2. destruct rep; apply SAME; simpl; repeat split; assumption.
        -- apply SAME. simpl. split; [split; assumption|]. split; [exact A|split; [exact B|]].
           apply Z.ltb_ge in E1. apply Z.eqb_neq in E2. lia.
    + apply SAME. simpl. split; [split; assumption|exact I].
  - (* SLock *) destruct (acquire h t pred) as [h'|] eqn:Ea; cbn [fst snd]; [|now apply SAME].
    apply acquire_some in Ea. destruct Ea as [-> _]. apply FLAG; auto with lzm.
  - (* SValid *)
    match goal with |- context [if ?b then _ else _] => destruct b end; apply SAME; simpl in *;
      unfold lt_key, victim_ok in *; tauto.
  - (* SLink *) simpl in P. destruct P as [[V K] S].
    set (nn := {| key := k; value := v; next := succ; marked := false; linked := false; lock := None |}).
    assert (E1 : ext h (h ++ [nn])) by apply ext_app.
    assert (O1 : ord (h ++ [nn])).
    { apply ord_app; [exact O|]. simpl. destruct succ as [m|]; [|exact I]. exact S. }
    assert (V1 : valid (h ++ [nn]) pred) by (eapply valid_ext; eauto).
    assert (Vn : valid (h ++ [nn]) (length h)) by (unfold valid; rewrite app_length; simpl; lia).
    split; [|split].
    + eapply ext_trans; [exact E1|]. apply ext_setn. auto with lzm.
    + apply ord_set_next; [exact O1|exact V1|]. simpl. split; [lia|split; [exact Vn|]].
      intros N. rewrite get_app_new, get_app_old by exact V. simpl. now apply K.
    + simpl. unfold victim_ok. split; [unfold valid; rewrite setn_length; exact V1|].
      split; [lia|split; [unfold valid; rewrite setn_length; exact Vn|]].
      rewrite (fld_setn key) by reflexivity. now rewrite get_app_new.
  - (* SFull *) apply FLAG; auto with lzm. simpl in *. tauto.
  - (* SUnlock *)
    destruct ok; (apply FLAG; [auto with lzm|]); simpl; auto. now apply lt_key_0.
  - (* SLockN *) destruct (acquire h t c) as [h'|] eqn:Ea; cbn [fst snd]; [|now apply SAME].
    apply acquire_some in Ea. destruct Ea as [-> _]. apply FLAG; auto with lzm.
  - (* SChkM *) destruct (marked (get h c)); apply SAME; exact P.
  - (* SWaitL *) destruct (linked (get h c)); apply SAME; exact P.
  - (* SWrite *) apply FLAG; auto with lzm.
  - (* SUnlockN *) destruct ok; (apply FLAG; [auto with lzm|]); simpl; auto. now apply lt_key_0.
  - (* SChkM0 *) destruct (marked (get h c)); apply SAME; simpl; auto. now apply lt_key_0.
  - (* SWrite0 *) apply FLAG; auto with lzm. exact I.
  - (* RFind *) simpl in P. destruct P as [[V K] M].
    assert (MISS : let miss := match mk with Some v => (h, RFind k 0 mk) | None => (h, Done 0 false) end in
                   ext h (fst miss) /\ ord (fst miss) /\ pc_ok (fst miss) (snd miss)).
    { destruct mk; cbn [fst snd]; apply SAME; simpl; auto. split; [now apply lt_key_0|exact M]. }
    destruct (next (get h pred)) as [c|] eqn:En; [|exact MISS].
    destruct (O pred c V En) as (A & B & C).
    destruct (key (get h c) <? k) eqn:E1; cbn [fst snd].
    + apply SAME. simpl. split; [|exact M]. split; [exact B|]. intros _. now apply Z.ltb_lt.
    + destruct (key (get h c) =? k) eqn:E2; [|exact MISS]. apply Z.eqb_eq in E2.
      destruct mk as [v|].
      * destruct (Nat.eqb c v); apply SAME; simpl.
        -- split; [split; assumption|exact M].
        -- split; [now apply lt_key_0|exact M].
      * apply SAME. simpl. split; [split; assumption|]. split; [exact A|split; [exact B|exact E2]].
  - (* RCheck *) match goal with |- context [if ?b then _ else _] => destruct b end; apply SAME; simpl in *; tauto.
  - (* RLockV *) destruct (acquire h t v) as [h'|] eqn:Ea; cbn [fst snd]; [|now apply SAME].
    apply acquire_some in Ea. destruct Ea as [-> _]. apply FLAG; auto with lzm.
  - (* RMark *) destruct (marked (get h v)); cbn [fst snd];
      [apply SAME; simpl in *; unfold lt_key, victim_ok in *; tauto|apply FLAG; auto with lzm].
  - (* RLockP *) destruct (acquire h t pred) as [h'|] eqn:Ea; cbn [fst snd]; [|now apply SAME].
    apply acquire_some in Ea. destruct Ea as [-> _]. apply FLAG; auto with lzm.
  - (* RValid *) match goal with |- context [if ?b then _ else _] => destruct b end; apply SAME; simpl in *; tauto.
  - (* RUnlink *) simpl in P. destruct P as [[V K] (A & B & C)].
    split; [apply ext_setn; auto with lzm|split].
    + apply ord_set_next; [exact O|exact V|]. unfold target_ok.
      destruct (next (get h v)) as [m|] eqn:En; [|exact I].
      destruct (O v m B En) as (A1 & B1 & C1). split; [exact A1|split; [exact B1|]].
      intros N. specialize (K N). assert (Hv : v <> 0%nat) by lia. specialize (C1 Hv). lia.
    + eapply (pc_ok_ext h); [apply ext_setn; auto with lzm|]. simpl.
      split; [split; assumption|split; [exact A|split; assumption]].
  - (* RUnlockV *) apply FLAG; auto with lzm.
  - (* RUnlockP *) destruct ok; (apply FLAG; [auto with lzm|]); simpl in *; unfold victim_ok in *; [tauto|].
    split; [now apply lt_key_0|tauto].
  - (* RGiveUp *) apply FLAG; auto with lzm. exact I.
  - (* RRead *) apply SAME. exact I.
  - (* LFind *) simpl in P. destruct P as [V K].
    destruct (next (get h pred)) as [c|] eqn:En; cbn [fst snd]; [|apply SAME; exact I].
    destruct (O pred c V En) as (A & B & C).
    destruct (key (get h c) <? k) eqn:E1; cbn [fst snd].
    + apply SAME. simpl. split; [exact B|]. intros _. now apply Z.ltb_lt.
    + destruct (key (get h c) =? k) eqn:E2; apply SAME; [|exact I].
      apply Z.eqb_eq in E2. simpl. repeat split; assumption.
  - (* LFlags *) match goal with |- context [if ?b then _ else _] => destruct b end; apply SAME; simpl in *;
      unfold victim_ok in *; tauto.
  - (* LRead *) apply SAME. exact I.
  - (* OFind *) simpl in P. destruct P as [V K].
    destruct (next (get h pred)) as [c|] eqn:En; cbn [fst snd].
    + destruct (O pred c V En) as (A & B & C).
      destruct (key (get h c) <? k) eqn:E1; cbn [fst snd].
      * apply SAME. simpl. split; [exact B|]. intros _. now apply Z.ltb_lt.
      * destruct (key (get h c) =? k) eqn:E2; cbn [fst snd].
        -- apply Z.eqb_eq in E2. apply SAME; simpl; repeat split; assumption.
        -- apply SAME. simpl. split; [split; assumption|]. split; [exact A|split; [exact B|]].
           apply Z.ltb_ge in E1. apply Z.eqb_neq in E2. lia.
    + apply SAME. simpl. split; [split; assumption|exact I].
  - (* OChkM *) destruct (marked (get h c)); apply SAME; simpl; auto. now apply lt_key_0.
  - (* OWaitL *) destruct (linked (get h c)); apply SAME; exact P.
  - (* ORead *) apply SAME. exact I.
  - (* OLock *) destruct (acquire h t pred) as [h'|] eqn:Ea; cbn [fst snd]; [|now apply SAME].
    apply acquire_some in Ea. destruct Ea as [-> _]. apply FLAG; auto with lzm.
  - (* OValid *)
    match goal with |- context [if ?b then _ else _] => destruct b end; [destruct lz|]; apply SAME; simpl in *;
      unfold lt_key, victim_ok in *; tauto.
  - (* OCall *) apply SAME. exact P.
  - (* OLink *) simpl in P. destruct P as [[V K] S].
    set (nn := {| key := k; value := v; next := succ; marked := false; linked := false; lock := None |}).
    assert (E1 : ext h (h ++ [nn])) by apply ext_app.
    assert (O1 : ord (h ++ [nn])).
    { apply ord_app; [exact O|]. simpl. destruct succ as [m|]; [|exact I]. exact S. }
    assert (V1 : valid (h ++ [nn]) pred) by (eapply valid_ext; eauto).
    assert (Vn : valid (h ++ [nn]) (length h)) by (unfold valid; rewrite app_length; simpl; lia).
    split; [|split].
    + eapply ext_trans; [exact E1|]. apply ext_setn. auto with lzm.
    + apply ord_set_next; [exact O1|exact V1|]. simpl. split; [lia|split; [exact Vn|]].
      intros N. rewrite get_app_new, get_app_old by exact V. simpl. now apply K.
    + simpl. unfold victim_ok. split; [unfold valid; rewrite setn_length; exact V1|].
      split; [lia|split; [unfold valid; rewrite setn_length; exact Vn|]].
      rewrite (fld_setn key) by reflexivity. now rewrite get_app_new.
  - (* OFull *) apply FLAG; auto with lzm. simpl in *. tauto.
  - (* OUnlock *)
    destruct ok; (apply FLAG; [auto with lzm|]); simpl; auto. now apply lt_key_0.
Qed.


(* ---------- locks: what a program counter holds ---------- *)
Definition held (p : pc) : list nat :=
  match p with
  | SValid _ _ pred _ | SLink _ _ pred _ | SFull _ _ pred _ | SUnlock _ _ pred _
  | OValid _ _ _ _ pred _ | OCall _ _ _ _ pred _ | OLink _ _ _ _ pred _ | OFull _ _ _ _ pred _
  | OUnlock _ _ _ _ pred _ => [pred]
  | SChkM _ _ c | SWaitL _ _ c | SWrite _ _ c | SUnlockN _ _ c _ => [c]
  | RFind _ _ (Some v) | RMark _ _ v | RLockP _ _ v | RGiveUp v => [v]
  | RValid _ pred v | RUnlink _ pred v | RUnlockV _ pred v => [v; pred]
  | RUnlockP _ pred v ok => if ok then [pred] else [v; pred]
  | _ => []
  end.

(* thread t holds exactly the locks of the nodes in [held p] *)
Definition own (h : heap) (t : nat) (p : pc) : Prop := forall i, lock (get h i) = Some t <-> In i (held p).

Definition lock_step (h : heap) (t : nat) (h' : heap) (p' : pc) : Prop :=
  own h' t p' /\ forall i u, u <> t -> (lock (get h' i) = Some u <-> lock (get h i) = Some u).

Lemma LS_same h t p h' p' : own h t p -> (forall i, lock (get h' i) = lock (get h i)) ->
  (forall i, In i (held p') <-> In i (held p)) -> lock_step h t h' p'.
Proof.
  intros W HL HH. split.
  - intros i. rewrite HL, HH. apply W.
  - intros i u _. now rewrite HL.
Qed.

Lemma lock_setn_lock h j x i : valid h j ->
  lock (get (setn h j (set_lock x)) i) = if Nat.eq_dec i j then x else lock (get h i).
Proof.
  intros V. destruct (Nat.eq_dec i j) as [->|N].
  - now rewrite get_setn_same.
  - now rewrite get_setn_other.
Qed.

Lemma LS_acq h t p j p' : own h t p -> valid h j -> lock (get h j) = None ->
  (forall i, In i (held p') <-> j = i \/ In i (held p)) -> lock_step h t (setn h j (set_lock (Some t))) p'.
Proof.
  intros W V HN HH. split.
  - intros i. rewrite lock_setn_lock by exact V. rewrite HH. destruct (Nat.eq_dec i j) as [->|N].
    + tauto.
    + rewrite (W i). intuition congruence.
  - intros i u Hu. rewrite lock_setn_lock by exact V. destruct (Nat.eq_dec i j) as [->|N]; [|tauto].
    rewrite HN. split; intros X; congruence.
Qed.

Lemma LS_rel h t p j p' : own h t p -> valid h j -> In j (held p) ->
  (forall i, In i (held p) <-> j = i \/ In i (held p')) -> ~ In j (held p') ->
  lock_step h t (setn h j (set_lock None)) p'.
Proof.
  intros W V HJ HH NJ. split.
  - intros i. rewrite lock_setn_lock by exact V. destruct (Nat.eq_dec i j) as [->|N].
    + split; [discriminate|tauto].
    + rewrite (W i), HH. intuition congruence.
  - intros i u Hu. rewrite lock_setn_lock by exact V. destruct (Nat.eq_dec i j) as [->|N]; [|tauto].
    apply W in HJ. rewrite HJ. split; intros X; congruence.
Qed.

Lemma lock_app_setn h n j f i : lock n = None -> (forall m, lock (f m) = lock m) ->
  lock (get (setn (h ++ [n]) j f) i) = lock (get h i).
Proof.
  intros Hn Hf. rewrite (fld_setn lock) by exact Hf.
  destruct (lt_dec i (length h)) as [V|V]; [now rewrite get_app_old|].
  rewrite (get_invalid h i) by exact V.
  destruct (Nat.eq_dec i (length h)) as [->|N]; [now rewrite get_app_new|].
  rewrite get_invalid; [reflexivity|]. unfold valid. rewrite app_length. simpl. lia.
Qed.

Lemma action_locks rep h t p : pc_ok h p -> own h t p ->
  lock_step h t (fst (action rep h t p)) (snd (action rep h t p)).
Proof.
  intros P W.
  assert (SAME : forall q, (forall i, In i (held q) <-> In i (held p)) -> lock_step h t h q).
  { intros q Hq. eapply LS_same; eauto. }
  assert (FLAG : forall j f q, (forall m, lock (f m) = lock m) -> (forall i, In i (held q) <-> In i (held p)) ->
            lock_step h t (setn h j f) q).
  { intros j f q Hf Hq. eapply LS_same; eauto. intros i. now apply (fld_setn lock). }
  destruct p; cbn [action].
  all: try match goal with
       | |- context [match acquire ?hh ?tt ?i with Some _ => _ | None => _ end] =>
           let E := fresh "Ea" in destruct (acquire hh tt i) eqn:E;
           [apply acquire_some in E; destruct E as [-> E]|]
       end.
  all: repeat match goal with
              | |- context [match next ?x with Some _ => _ | None => _ end] => destruct (next x)
              | |- context [match ?m with Some _ => _ | None => _ end] => destruct m
              | |- context [if ?b then _ else _] => destruct b eqn:?
              end; cbn [fst snd].
  all: try (apply SAME; intros; cbn [held]; tauto).
  all: try (apply FLAG; [reflexivity|intros; cbn [held]; tauto]).
  all: try (assert (NV : v <> pred) by (cbn [pc_ok] in P; eapply pred_neq_victim; apply P)).
  all: cbn [pc_ok] in P; unfold lt_key, victim_ok in P.
  all: try (eapply LS_acq; [exact W|tauto|assumption|intros; cbn [held In]; tauto]).
  all: try (eapply LS_rel; [exact W|tauto|cbn [held In]; tauto|intros; cbn [held In]; tauto|cbn [held In]; intuition congruence]).
  all: eapply LS_same; [exact W|intros i; apply lock_app_setn; reflexivity|intros; cbn [held]; tauto].
Qed.

(* ---------- which action can change value / marked / linked of an existing node ---------- *)
Definition writes (h h' : heap) (p : pc) (i : nat) : Prop :=
  (value (get h' i) <> value (get h i) -> (exists k v, p = SWrite k v i) \/ (exists k v, p = SWrite0 k v i)) /\
  (marked (get h' i) <> marked (get h i) -> exists k pred, p = RMark k pred i) /\
  (linked (get h' i) <> linked (get h i) ->
     (exists k v pred, p = SFull k v pred i) \/ (exists k v lz n pred, p = OFull k v lz n pred i)).

Lemma writes_none h h' p i :
  value (get h' i) = value (get h i) -> marked (get h' i) = marked (get h i) -> linked (get h' i) = linked (get h i) ->
  writes h h' p i.
Proof. intros A B C. repeat split; intros N; congruence. Qed.

Lemma action_writes rep h t p i : valid h i -> writes h (fst (action rep h t p)) p i.
Proof.
  intros V.
  assert (FLAG : forall j f q, (forall m, value (f m) = value m) -> (forall m, marked (f m) = marked m) ->
            (forall m, linked (f m) = linked m) -> writes h (setn h j f) q i).
  { intros j f q A B C. apply writes_none; [now apply (fld_setn value)|now apply (fld_setn marked)|now apply (fld_setn linked)]. }
  destruct p; cbn [action].
  all: try match goal with
       | |- context [match acquire ?hh ?tt ?i with Some _ => _ | None => _ end] =>
           let E := fresh "Ea" in destruct (acquire hh tt i) eqn:E;
           [apply acquire_some in E; destruct E as [-> E]|]
       end.
  all: repeat match goal with
              | |- context [match next ?x with Some _ => _ | None => _ end] => destruct (next x)
              | |- context [match ?m with Some _ => _ | None => _ end] => destruct m
              | |- context [if ?b then _ else _] => destruct b eqn:?
              end; cbn [fst snd].
  all: try (apply writes_none; reflexivity).
  all: try (apply FLAG; reflexivity).
  - apply writes_none; rewrite ?(fld_setn value), ?(fld_setn marked), ?(fld_setn linked) by reflexivity;
      now rewrite get_app_old.
  - unfold writes. rewrite (fld_setn value), (fld_setn marked) by reflexivity.
    split; [congruence|split; [congruence|]]. intros N. destruct (Nat.eq_dec i nn) as [->|D]; [left; eauto|].
    rewrite get_setn_other in N by exact D. congruence.
  - unfold writes. rewrite (fld_setn linked), (fld_setn marked) by reflexivity.
    split; [|split; congruence]. intros N. destruct (Nat.eq_dec i c) as [->|D]; [eauto|].
    rewrite get_setn_other in N by exact D. congruence.
  - unfold writes. rewrite (fld_setn linked), (fld_setn marked) by reflexivity.
    split; [|split; congruence]. intros N. destruct (Nat.eq_dec i c) as [->|D]; [eauto|].
    rewrite get_setn_other in N by exact D. congruence.
  - unfold writes. rewrite (fld_setn linked), (fld_setn value) by reflexivity.
    split; [congruence|split; [|congruence]]. intros N. destruct (Nat.eq_dec i v) as [->|D]; [eauto|].
    rewrite get_setn_other in N by exact D. congruence.
  - apply writes_none; rewrite ?(fld_setn value), ?(fld_setn marked), ?(fld_setn linked) by reflexivity;
      now rewrite get_app_old.
  - unfold writes. rewrite (fld_setn value), (fld_setn marked) by reflexivity.
    split; [congruence|split; [congruence|]]. intros N. destruct (Nat.eq_dec i nn) as [->|D]; [right; eauto 8|].
    rewrite get_setn_other in N by exact D. congruence.
Qed.

(* ---------- one scheduler step = one transition of one thread ---------- *)
Definition trans (rep : bool) (h : heap) (t : nat) (p : pc) (h' : heap) (p' : pc) : Prop :=
  (resting p = true /\ h' = h /\ (p' = Idle \/ exists o, p' = start o)) \/
  (resting p = false /\ h' = fst (action rep h t p) /\ p' = snd (action rep h t p)).

Lemma step_cases rep s t :
  step rep s t = s \/
  exists th h' th', nth_error (ths s) t = Some th /\ trans rep (hp s) t (at_pc th) h' (at_pc th') /\
    step rep s t = {| hp := h'; ths := upd (ths s) t th' |}.
Proof.
  unfold step. destruct (nth_error (ths s) t) as [th|] eqn:E; [right|left; reflexivity].
  unfold thr_step. destruct (resting (at_pc th)) eqn:R.
  - destruct (todo th) as [|o rest]; cbn [fst snd].
    + exists th, (hp s), {| todo := []; at_pc := Idle |}. split; [reflexivity|]. split; [|reflexivity].
      left. cbn [at_pc]. auto.
    + exists th, (hp s), {| todo := rest; at_pc := start o |}. split; [reflexivity|]. split; [|reflexivity].
      left. cbn [at_pc]. eauto.
  - cbn [fst snd]. eexists th, _, _. split; [reflexivity|]. split; [|reflexivity].
    right. cbn [at_pc]. auto.
Qed.

Lemma start_ok h o : (1 <= length h)%nat -> pc_ok h (start o).
Proof. intros L. destruct o; simpl; auto using lt_key_0. Qed.

Lemma trans_ok rep h t p h' p' : (1 <= length h)%nat -> ord h -> pc_ok h p -> trans rep h t p h' p' ->
  ext h h' /\ ord h' /\ pc_ok h' p'.
Proof.
  intros L O P [(R & -> & [->|[o ->]])|(R & -> & ->)].
  - split; [apply ext_refl|split; [exact O|exact I]].
  - split; [apply ext_refl|split; [exact O|now apply start_ok]].
  - now apply action_ok.
Qed.

Lemma resting_held p : resting p = true -> held p = [].
Proof. destruct p; simpl; congruence. Qed.

Lemma start_held o : held (start o) = [].
Proof. now destruct o. Qed.

Lemma trans_locks rep h t p h' p' : pc_ok h p -> own h t p -> trans rep h t p h' p' -> lock_step h t h' p'.
Proof.
  intros P W [(R & -> & [->|[o ->]])|(R & -> & ->)].
  - eapply LS_same; [exact W|reflexivity|]. intros i. rewrite (resting_held p R). reflexivity.
  - eapply LS_same; [exact W|reflexivity|]. intros i. rewrite (resting_held p R), start_held. reflexivity.
  - now apply action_locks.
Qed.

Lemma trans_writes rep h t p h' p' i : valid h i -> trans rep h t p h' p' -> writes h h' p i.
Proof.
  intros V [(R & -> & _)|(R & -> & ->)]; [now apply writes_none|now apply action_writes].
Qed.

Lemma nth_error_upd {A} (l : list A) t x u y :
  nth_error (upd l t x) u = Some y -> (u = t /\ y = x) \/ (u <> t /\ nth_error l u = Some y).
Proof.
  revert t u. induction l as [|a l IH]; intros [|t] [|u]; simpl; intros H; try discriminate; auto.
  - left. split; congruence.
  - destruct (IH _ _ H) as [[-> ->]|[N E]]; auto.
Qed.

Lemma nth_error_upd_same {A} (l : list A) t x : (t < length l)%nat -> nth_error (upd l t x) t = Some x.
Proof. revert t. induction l as [|a l IH]; intros [|t] H; simpl in *; try lia; auto. apply IH. lia. Qed.

Lemma nth_error_upd_other {A} (l : list A) t x u : u <> t -> nth_error (upd l t x) u = nth_error l u.
Proof. revert t u. induction l as [|a l IH]; intros [|t] [|u] H; simpl; auto; try congruence. Qed.

(* ---------- the global invariant over every schedule, repaired or not ---------- *)
Record Inv (s : state) : Prop := {
  inv_hdr : (1 <= length (hp s))%nat;
  inv_ord : ord (hp s);
  inv_pcs : forall t th, nth_error (ths s) t = Some th -> pc_ok (hp s) (at_pc th) /\ own (hp s) t (at_pc th);
  inv_thr : forall i t, lock (get (hp s) i) = Some t -> (t < length (ths s))%nat }.

Lemma step_inv rep s t : Inv s -> Inv (step rep s t).
Proof.
  intros [L O P T]. destruct (step_cases rep s t) as [E|(th & h' & th' & Hth & Tr & E)]; rewrite E; [now split|].
  destruct (P t th Hth) as [Pt Wt].
  destruct (trans_ok _ _ _ _ _ _ L O Pt Tr) as (X & O' & P').
  destruct (trans_locks _ _ _ _ _ _ Pt Wt Tr) as (W' & OTH).
  split; cbn [hp ths].
  - destruct X as [X _]. lia.
  - exact O'.
  - intros u thu Hu. apply nth_error_upd in Hu as [[-> ->]|[N Hu]]; [split; assumption|].
    destruct (P u thu Hu) as [Pu Wu]. split; [eapply pc_ok_ext; eauto|].
    intros i. rewrite (OTH i u N). apply Wu.
  - intros i u Hl. rewrite upd_length. destruct (Nat.eq_dec u t) as [->|N]; [apply nth_error_Some; congruence|].
    apply (OTH i u N) in Hl. eapply T; eauto.
Qed.

Lemma get_init i : i <> 0%nat -> get [header] i = dflt.
Proof. intros N. apply get_invalid. unfold valid. simpl. lia. Qed.

Lemma init_inv progs : Inv (init progs).
Proof.
  assert (NL : forall i t, lock (get [header] i) = Some t -> False).
  { intros i t. destruct (Nat.eq_dec i 0) as [->|N]; [discriminate|]. rewrite get_init by exact N. discriminate. }
  split; cbn [hp ths init].
  - simpl. lia.
  - intros i m V E. unfold valid in V. simpl in V. assert (i = 0%nat) by lia. subst. discriminate.
  - intros t th Hth. apply nth_error_In in Hth. apply in_map_iff in Hth as (p & <- & _). cbn [at_pc].
    split; [exact I|]. intros i. split; [intros H; exfalso; eapply NL; eauto|intros []].
  - intros i t H. exfalso. eapply NL; eauto.
Qed.

Lemma run_sched_inv rep s sched : Inv s -> Inv (run_sched rep s sched).
Proof.
  revert s. induction sched as [|t sched IH]; intros s I0; [exact I0|]. simpl. apply IH. now apply step_inv.
Qed.

Theorem lazymap_inv rep progs sched : Inv (run rep progs sched).
Proof. apply run_sched_inv, init_inv. Qed.

(* mutual exclusion bookkeeping, for the repaired and for the pre-repair code *)
Theorem lazymap_lock_owner rep progs sched :
  let s := run rep progs sched in
  (forall i t, lock (get (hp s) i) = Some t ->
     exists th, nth_error (ths s) t = Some th /\ In i (held (at_pc th))) /\
  (forall t th i, nth_error (ths s) t = Some th -> In i (held (at_pc th)) -> lock (get (hp s) i) = Some t) /\
  (forall t t' i, lock (get (hp s) i) = Some t -> t' <> t -> lock (get (hp (step rep s t')) i) = Some t).
Proof.
  cbv zeta. pose proof (lazymap_inv rep progs sched) as IV. set (s := run rep progs sched) in *.
  destruct IV as [L O P T]. split; [|split].
  - intros i t Hl. pose proof (T i t Hl) as Ht. apply nth_error_Some in Ht.
    destruct (nth_error (ths s) t) as [th|] eqn:E; [|congruence]. exists th. split; [reflexivity|].
    destruct (P t th E) as [_ W]. now apply W.
  - intros t th i Hth Hin. destruct (P t th Hth) as [_ W]. now apply W.
  - intros t t' i Hl N. destruct (step_cases rep s t') as [E|(th & h' & th' & Hth & Tr & E)]; rewrite E; [exact Hl|].
    cbn [hp]. destruct (P t' th Hth) as [Pt Wt].
    destruct (trans_locks _ _ _ _ _ _ Pt Wt Tr) as (_ & OTH). apply OTH; auto.
Qed.


(* ---------- the repaired code: what a program counter knows about the flags ---------- *)
Definition pc_flags (h : heap) (p : pc) : Prop :=
  match p with
  | SChkM0 _ _ _ | SWrite0 _ _ _ => False                 (* never reached by the repaired code *)
  | SWaitL _ _ c => marked (get h c) = false
  | SWrite _ _ c => marked (get h c) = false /\ linked (get h c) = true
  | SFull _ v _ nn | OFull _ v _ _ _ nn =>
      value (get h nn) = v /\ marked (get h nn) = false /\ linked (get h nn) = false
  | RLockV _ _ v | RMark _ _ v => linked (get h v) = true
  | RFind _ _ (Some v) | RLockP _ _ v | RValid _ _ v | RUnlink _ _ v | RUnlockV _ _ v
  | RUnlockP _ _ v _ | RRead v => marked (get h v) = true
  | _ => True
  end.

Definition sf_of (p : pc) : option nat :=
  match p with SFull _ _ _ nn | OFull _ _ _ _ _ nn => Some nn | _ => None end.

Lemma action_flags h t p : pc_ok h p -> pc_flags h p ->
  pc_flags (fst (action true h t p)) (snd (action true h t p)).
Proof.
  intros P F.
  destruct p; cbn [action].
  all: try match goal with
       | |- context [match acquire ?hh ?tt ?i with Some _ => _ | None => _ end] =>
           let E := fresh "Ea" in destruct (acquire hh tt i) eqn:E;
           [apply acquire_some in E; destruct E as [-> E]|]
       end.
  all: repeat match goal with
              | |- context [match next ?x with Some _ => _ | None => _ end] => destruct (next x)
              | |- context [match ?m with Some _ => _ | None => _ end] => destruct m
              | |- context [if ?b then _ else _] => destruct b eqn:?
              end; cbn [fst snd].
  all: cbn [pc_flags] in *.
  all: rewrite ?(fld_setn marked), ?(fld_setn linked), ?(fld_setn value) by reflexivity.
  all: try exact I.
  all: try assumption.
  all: try tauto.
  - rewrite get_app_new. cbn. auto.
  - match goal with H : _ && _ = true |- _ => apply andb_true_iff in H; tauto end.
  - rewrite get_setn_same; [reflexivity|]. cbn [pc_ok] in P. unfold victim_ok in P. tauto.
  - rewrite get_app_new. cbn. auto.
Qed.

Lemma start_flags h o : pc_flags h (start o).
Proof. now destruct o. Qed.

Lemma trans_flags h t p h' p' : pc_ok h p -> pc_flags h p -> trans true h t p h' p' -> pc_flags h' p'.
Proof.
  intros P F [(R & -> & [->|[o ->]])|(R & -> & ->)]; [exact I|apply start_flags|now apply action_flags].
Qed.

Lemma action_sf rep h t p nn : sf_of (snd (action rep h t p)) = Some nn -> nn = length h.
Proof.
  destruct p; cbn [action].
  all: repeat match goal with
              | |- context [match acquire ?hh ?tt ?i with Some _ => _ | None => _ end] => destruct (acquire hh tt i)
              | |- context [match next ?x with Some _ => _ | None => _ end] => destruct (next x)
              | |- context [match ?m with Some _ => _ | None => _ end] => destruct m
              | |- context [if ?b then _ else _] => destruct b
              end; cbn [fst snd sf_of]; try discriminate.
  all: congruence.
Qed.

Lemma trans_sf rep h t p h' p' nn : trans rep h t p h' p' -> sf_of p' = Some nn -> nn = length h.
Proof.
  intros [(R & -> & [->|[o ->]])|(R & -> & ->)]; [discriminate|destruct o; discriminate|apply action_sf].
Qed.

Lemma sf_valid h p nn : pc_ok h p -> sf_of p = Some nn -> valid h nn.
Proof. destruct p; try discriminate; cbn; unfold victim_ok; intros P E; inversion E; subst; tauto. Qed.

(* the flag facts of thread u survive a transition of another thread t *)
Lemma flags_stable h h' p q t u : u <> t -> ext h h' -> pc_ok h q -> own h t p -> own h u q ->
  pc_flags h p -> pc_flags h q -> (forall i, valid h i -> writes h h' p i) ->
  (forall nn, sf_of q = Some nn -> sf_of p <> Some nn) -> pc_flags h' q.
Proof.
  intros N (_ & _ & Mm & Ml) Pq Wt Wu Fp Fq WR SF.
  assert (UNM : forall c, In c (held q) -> marked (get h c) = false -> marked (get h' c) = false).
  { intros c Hc Mc. destruct (marked (get h' c)) eqn:E; [exfalso|reflexivity].
    assert (Vc : valid h c) by (eapply lock_valid; apply Wu; exact Hc).
    destruct (WR c Vc) as (_ & WM & _). destruct WM as (k0 & p0 & ->); [congruence|].
    apply Wu in Hc. assert (Ht : lock (get h c) = Some t) by (apply Wt; cbn; auto). congruence. }
  assert (FULL : forall x nn, valid h nn -> sf_of q = Some nn ->
            value (get h nn) = x /\ marked (get h nn) = false /\ linked (get h nn) = false ->
            value (get h' nn) = x /\ marked (get h' nn) = false /\ linked (get h' nn) = false).
  { intros x nn Vn Sq (Fv & Fm & Fl).
    destruct (WR nn Vn) as (WV & WM & WL).
    assert (El : linked (get h' nn) = false).
    { destruct (linked (get h' nn)) eqn:E; [exfalso|reflexivity].
      destruct WL as [(k0 & v0 & p0 & ->)|(k0 & v0 & lz0 & n0 & p0 & ->)]; [congruence| |]; now apply (SF nn). }
    assert (Em : marked (get h' nn) = false).
    { destruct (marked (get h' nn)) eqn:E; [exfalso|reflexivity].
      destruct WM as (k0 & p0 & ->); [congruence|]. cbn [pc_flags] in Fp. congruence. }
    split; [|split; assumption].
    destruct (Z.eq_dec (value (get h' nn)) (value (get h nn))) as [E|E]; [congruence|exfalso].
    destruct (WV E) as [(k0 & v0 & ->)|(k0 & v0 & ->)]; cbn [pc_flags] in Fp; [|exact Fp].
    destruct Fp as [_ Fp]. congruence. }
  destruct q; try destruct mk; cbn [pc_flags] in *; auto.
  - (* SFull *) destruct Pq as (_ & _ & Vn & _). now apply FULL.
  - (* SWaitL *) apply UNM; cbn; auto.
  - (* SWrite *) split; [apply UNM; cbn; auto; tauto|apply Ml; tauto].
  - (* OFull *) destruct Pq as (_ & _ & Vn & _). now apply FULL.
Qed.

Record InvR (s : state) : Prop := {
  invr_flags : forall t th, nth_error (ths s) t = Some th -> pc_flags (hp s) (at_pc th);
  invr_sf : forall t u th thu nn, u <> t -> nth_error (ths s) t = Some th -> nth_error (ths s) u = Some thu ->
      sf_of (at_pc th) = Some nn -> sf_of (at_pc thu) <> Some nn }.

Lemma step_invR s t : Inv s -> InvR s -> InvR (step true s t).
Proof.
  intros [L O P T] [F SF].
  destruct (step_cases true s t) as [E|(th & h' & th' & Hth & Tr & E)]; rewrite E; [now split|].
  destruct (P t th Hth) as [Pt Wt]. pose proof (F t th Hth) as Ft.
  destruct (trans_ok _ _ _ _ _ _ L O Pt Tr) as (X & O' & P').
  split; cbn [hp ths].
  - intros u thu Hu. apply nth_error_upd in Hu as [[-> ->]|[N Hu]]; [exact (trans_flags _ _ _ _ _ Pt Ft Tr)|].
    destruct (P u thu Hu) as [Pu Wu].
    apply (flags_stable (hp s) h' (at_pc th) (at_pc thu) t u N X Pu Wt Wu Ft (F u thu Hu)).
    + intros i Vi. eapply trans_writes; eauto.
    + intros nn E1 E2. eapply (SF t u); eauto.
  - intros a b tha thb nn Nab Ha Hb Ea Eb.
    apply nth_error_upd in Ha as [[-> ->]|[Na Ha]]; apply nth_error_upd in Hb as [[-> ->]|[Nb Hb]].
    + congruence.
    + pose proof (trans_sf _ _ _ _ _ _ _ Tr Ea) as ->.
      destruct (P b thb Hb) as [Pb _]. pose proof (sf_valid _ _ _ Pb Eb) as V. unfold valid in V. lia.
    + pose proof (trans_sf _ _ _ _ _ _ _ Tr Eb) as ->.
      destruct (P a tha Ha) as [Pa _]. pose proof (sf_valid _ _ _ Pa Ea) as V. unfold valid in V. lia.
    + eapply (SF a b); eauto.
Qed.

Lemma init_invR progs : InvR (init progs).
Proof.
  split; cbn [hp ths init].
  - intros t th Hth. apply nth_error_In in Hth. apply in_map_iff in Hth as (p & <- & _). exact I.
  - intros t u th thu nn _ Hth _ E. apply nth_error_In in Hth. apply in_map_iff in Hth as (p & <- & _). discriminate.
Qed.

Lemma run_sched_invR s sched : Inv s -> InvR s -> Inv (run_sched true s sched) /\ InvR (run_sched true s sched).
Proof.
  revert s. induction sched as [|t sched IH]; intros s I0 R0; [now split|]. simpl. apply IH.
  - now apply step_inv.
  - now apply step_invR.
Qed.

Theorem lazymap_invR progs sched : InvR (run true progs sched).
Proof. apply run_sched_invR; [apply init_inv|apply init_invR]. Qed.


(* ---------- repaired code: who may write the value / the mark of an existing node ---------- *)
Lemma step_value_write s t n : Inv s -> InvR s -> valid (hp s) n ->
  (value (get (hp (step true s t)) n) <> value (get (hp s) n) ->
     lock (get (hp s) n) = Some t /\ marked (get (hp s) n) = false /\ linked (get (hp s) n) = true) /\
  (marked (get (hp (step true s t)) n) <> marked (get (hp s) n) -> lock (get (hp s) n) = Some t).
Proof.
  intros [L O P T] [F SF] V.
  destruct (step_cases true s t) as [E|(th & h' & th' & Hth & Tr & E)]; rewrite E; [split; congruence|].
  cbn [hp]. destruct (P t th Hth) as [Pt Wt]. pose proof (F t th Hth) as Ft.
  destruct (trans_writes _ _ _ _ _ _ n V Tr) as (WV & WM & _). split.
  - intros D. destruct (WV D) as [(k & v & Ep)|(k & v & Ep)]; rewrite Ep in *; cbn [pc_flags] in Ft; [|contradiction].
    split; [apply Wt; cbn; auto|tauto].
  - intros D. destruct (WM D) as (k & pred & Ep). rewrite Ep in *. apply Wt. cbn. auto.
Qed.

Theorem lazymap_value_write progs sched t n :
  let s := run true progs sched in
  let s' := step true s t in
  valid (hp s) n ->
  (value (get (hp s') n) <> value (get (hp s) n) ->
     lock (get (hp s) n) = Some t /\ marked (get (hp s) n) = false /\ linked (get (hp s) n) = true) /\
  (marked (get (hp s') n) <> marked (get (hp s) n) -> lock (get (hp s) n) = Some t).
Proof. cbv zeta. apply step_value_write; [apply lazymap_inv|apply lazymap_invR]. Qed.

(* ---------- once marked, the value of a node is frozen ---------- *)
Lemma step_ext rep s t : Inv s -> ext (hp s) (hp (step rep s t)).
Proof.
  intros [L O P T]. destruct (step_cases rep s t) as [E|(th & h' & th' & Hth & Tr & E)]; rewrite E; [apply ext_refl|].
  destruct (P t th Hth) as [Pt _]. now destruct (trans_ok _ _ _ _ _ _ L O Pt Tr) as (X & _).
Qed.

Lemma run_sched_frozen s sched n : Inv s -> InvR s -> marked (get (hp s) n) = true ->
  value (get (hp (run_sched true s sched)) n) = value (get (hp s) n) /\
  marked (get (hp (run_sched true s sched)) n) = true.
Proof.
  revert s. induction sched as [|t sched IH]; intros s I0 R0 M; [now split|]. simpl.
  assert (M1 : marked (get (hp (step true s t)) n) = true).
  { destruct (step_ext true s t I0) as (_ & _ & Mm & _). now apply Mm. }
  destruct (IH (step true s t) (step_inv _ _ _ I0) (step_invR _ _ I0 R0) M1) as [A B]. split; [|exact B].
  rewrite A. destruct (Z.eq_dec (value (get (hp (step true s t)) n)) (value (get (hp s) n))) as [E|E]; [exact E|].
  destruct (step_value_write s t n I0 R0 (marked_valid _ _ M)) as [W _]. destruct (W E) as (_ & X & _). congruence.
Qed.

Lemma run_app rep progs a b : run rep progs (a ++ b) = run_sched rep (run rep progs a) b.
Proof. unfold run, run_sched. apply fold_left_app. Qed.

Theorem lazymap_marked_frozen progs sched sched' n :
  marked (get (hp (run true progs sched)) n) = true ->
  value (get (hp (run true progs (sched ++ sched'))) n) = value (get (hp (run true progs sched)) n) /\
  marked (get (hp (run true progs (sched ++ sched'))) n) = true.
Proof. intros M. rewrite run_app. apply run_sched_frozen; [apply lazymap_inv|apply lazymap_invR|exact M]. Qed.

(* ---------- LoadAndDelete returns the last value stored into its victim ---------- *)
(* the victim that a LoadAndDelete at this program counter has marked *)
Definition lad_victim (p : pc) : option nat :=
  match p with
  | RFind _ _ (Some v) | RLockP _ _ v | RValid _ _ v | RUnlink _ _ v | RUnlockV _ _ v | RUnlockP _ _ v _
  | RRead v => Some v
  | _ => None
  end.

Theorem lazymap_lad_victim_marked progs sched t th v :
  let s := run true progs sched in
  nth_error (ths s) t = Some th -> lad_victim (at_pc th) = Some v -> marked (get (hp s) v) = true.
Proof.
  cbv zeta. intros Hth E. pose proof (invr_flags _ (lazymap_invR progs sched) t th Hth) as F.
  destruct (at_pc th); try destruct mk; try discriminate; inversion E; subst; exact F.
Qed.

Lemma step_at rep s t th : nth_error (ths s) t = Some th -> resting (at_pc th) = false ->
  hp (step rep s t) = fst (action rep (hp s) t (at_pc th)) /\
  pc_of (step rep s t) t = snd (action rep (hp s) t (at_pc th)).
Proof.
  intros Hth R. unfold step, pc_of. rewrite Hth. cbn [hp ths]. unfold thr_step. rewrite R. cbn [fst snd].
  split; [reflexivity|]. rewrite nth_error_upd_same; [reflexivity|]. apply nth_error_Some. congruence.
Qed.

(* the marking step: done under the lock of the victim, it leaves the value alone *)
Theorem lazymap_lad_mark_step progs sched t th k pred v :
  let s := run true progs sched in
  let s' := step true s t in
  nth_error (ths s) t = Some th -> at_pc th = RMark k pred v -> marked (get (hp s) v) = false ->
  lock (get (hp s) v) = Some t /\ pc_of s' t = RLockP k pred v /\
  marked (get (hp s') v) = true /\ value (get (hp s') v) = value (get (hp s) v).
Proof.
  cbv zeta. intros Hth Ep M. set (s := run true progs sched) in *.
  destruct (inv_pcs _ (lazymap_inv true progs sched) t th Hth) as [P W]. fold s in P, W.
  destruct (step_at true s t th Hth) as [Eh Epc]; [now rewrite Ep|]. rewrite Eh, Epc, Ep in *.
  cbn [action]. rewrite M. cbn [fst snd]. cbn [pc_ok] in P. destruct P as (_ & _ & V & _).
  split; [apply W; cbn; auto|]. split; [reflexivity|]. split.
  - now rewrite get_setn_same.
  - now rewrite (fld_setn value).
Qed.

(* the return step (after both unlocks): the value read is the value the victim has had ever since it was marked *)
Theorem lazymap_lad_returns_last progs sched t th v :
  let s := run true progs sched in
  nth_error (ths s) t = Some th -> at_pc th = RRead v ->
  pc_of (step true s t) t = Done (value (get (hp s) v)) true /\
  marked (get (hp s) v) = true /\
  forall sched1 sched2, sched = sched1 ++ sched2 -> marked (get (hp (run true progs sched1)) v) = true ->
    value (get (hp s) v) = value (get (hp (run true progs sched1)) v).
Proof.
  cbv zeta. intros Hth Ep. split; [|split].
  - destruct (step_at true _ t th Hth) as [_ Epc]; [now rewrite Ep|]. rewrite Epc, Ep. reflexivity.
  - eapply lazymap_lad_victim_marked; [exact Hth|]. now rewrite Ep.
  - intros sched1 sched2 -> M. now apply lazymap_marked_frozen.
Qed.

(* both together: a LoadAndDelete that marked v when v held the value x returns (x, true) *)
Theorem lazymap_lad_returns_marked_value progs sched1 sched2 t th1 th2 k pred v :
  let s1 := run true progs sched1 in
  let s2 := run true progs (sched1 ++ t :: sched2) in
  nth_error (ths s1) t = Some th1 -> at_pc th1 = RMark k pred v -> marked (get (hp s1) v) = false ->
  nth_error (ths s2) t = Some th2 -> at_pc th2 = RRead v ->
  pc_of (step true s2 t) t = Done (value (get (hp s1) v)) true.
Proof.
  cbv zeta. intros H1 E1 M H2 E2.
  destruct (lazymap_lad_mark_step progs sched1 t th1 k pred v H1 E1 M) as (_ & _ & Mk & Vl).
  destruct (lazymap_lad_returns_last progs _ t th2 v H2 E2) as (R & _ & Fz). rewrite R.
  rewrite (Fz (sched1 ++ [t]) sched2).
  - rewrite run_app. cbn [run_sched fold_left]. now rewrite Vl.
  - now rewrite <- app_assoc.
  - rewrite run_app. exact Mk.
Qed.

(* ---------- a Store takes effect inside its interval ---------- *)
Lemma In_absmap h i : (1 <= i)%nat -> valid h i -> live (get h i) = true -> In (kv (get h i)) (absmap h).
Proof.
  intros Hi V Lv. unfold absmap. apply in_map. apply filter_In. split; [|exact Lv].
  destruct h as [|a h]; [unfold valid in V; simpl in V; lia|]. destruct i as [|j]; [lia|].
  unfold get. cbn [nth tl]. apply nth_In. unfold valid in V. simpl in V. lia.
Qed.

Theorem lazymap_store_visible progs sched t th k v c :
  let s := run true progs sched in
  let h' := hp (step true s t) in
  nth_error (ths s) t = Some th ->
  at_pc th = SWrite k v c \/ (exists pred, at_pc th = SFull k v pred c) ->
  (at_pc th = SWrite k v c ->
     lock (get (hp s) c) = Some t /\ linked (get (hp s) c) = true /\ marked (get (hp s) c) = false) /\
  key (get h' c) = k /\ value (get h' c) = v /\ linked (get h' c) = true /\ marked (get h' c) = false /\
  In (k, v) (absmap h').
Proof.
  cbv zeta. intros Hth Ep. set (s := run true progs sched) in *.
  destruct (inv_pcs _ (lazymap_inv true progs sched) t th Hth) as [P W]. fold s in P, W.
  pose proof (invr_flags _ (lazymap_invR progs sched) t th Hth) as F. fold s in F.
  assert (FIN : forall h', (1 <= c)%nat -> valid h' c -> key (get h' c) = k -> value (get h' c) = v ->
            linked (get h' c) = true -> marked (get h' c) = false ->
            key (get h' c) = k /\ value (get h' c) = v /\ linked (get h' c) = true /\ marked (get h' c) = false /\
            In (k, v) (absmap h')).
  { intros h' A B C D E G. repeat (split; [assumption|]).
    replace (k, v) with (kv (get h' c)) by (unfold kv; congruence).
    apply In_absmap; auto. unfold live. now rewrite E, G. }
  destruct Ep as [Ep|[pred Ep]].
  - destruct (step_at true s t th Hth) as [Eh _]; [now rewrite Ep|]. rewrite Eh. rewrite Ep in *.
    cbn [pc_ok pc_flags] in *. destruct P as (A & B & C). destruct F as [Fm Fl]. split.
    + intros _. split; [apply W; cbn; auto|split; assumption].
    + cbn [action fst]. apply FIN; auto.
      * unfold valid. now rewrite setn_length.
      * now rewrite (fld_setn key).
      * now rewrite get_setn_same.
      * now rewrite (fld_setn linked).
      * now rewrite (fld_setn marked).
  - destruct (step_at true s t th Hth) as [Eh _]; [now rewrite Ep|]. rewrite Eh. rewrite Ep in *.
    cbn [pc_ok pc_flags] in *. destruct P as (_ & A & B & C). destruct F as (Fv & Fm & Fl). split; [discriminate|].
    cbn [action fst]. apply FIN; auto.
    + unfold valid. now rewrite setn_length.
    + now rewrite (fld_setn key).
    + now rewrite (fld_setn value).
    + now rewrite get_setn_same.
    + now rewrite (fld_setn marked).
Qed.


(* ---------- the instrumented run is the run ---------- *)
Lemma ist_fold rep sched x : ist (fold_left (istep rep) sched x) = fold_left (step rep) sched (ist x).
Proof. revert x. induction sched as [|t sched IH]; intros x; [reflexivity|]. simpl. now rewrite IH. Qed.

Theorem irun_run rep progs sched : ist (irun rep progs sched) = run rep progs sched.
Proof. unfold irun, run, run_sched. now rewrite ist_fold. Qed.

(* ---------- the pre-repair Store loses a value ---------- *)
Definition ex_progs : list (list opk) := [[MStore 1 10; MStore 1 20]; [MLoadAndDelete 1]; [MLoad 1]].

(* thread 0: Store 1 10 completely (7 steps), then Store 1 20 up to the unlocked test of [marked] (3 steps);
   thread 1: LoadAndDelete 1 completely (11 steps): returns (10, true) *)
Definition ex_prefix : list nat := repeat 0%nat 10 ++ repeat 1%nat 11.
(* then thread 0 writes 20 into the deleted node and returns; thread 2: Load 1 = (0, false) *)
Definition ex_sched0 : list nat := ex_prefix ++ [0%nat] ++ repeat 2%nat 3.
(* the same race against the repaired code: thread 0 is about to lock the node (2 steps of Store 1 20),
   thread 1 deletes it, thread 0 finds it marked, searches again and links a new node; thread 2: Load 1 = (20, true) *)
Definition ex_sched1 : list nat := repeat 0%nat 9 ++ repeat 1%nat 11 ++ repeat 0%nat 10 ++ repeat 2%nat 5.

Theorem lazymap_prerepair_refuted :
  exists progs sched t n,
    let s := run false progs sched in
    valid (hp s) n /\ marked (get (hp s) n) = true /\ lock (get (hp s) n) = None /\
    value (get (hp (step false s t)) n) <> value (get (hp s) n).
Proof.
  exists ex_progs, ex_prefix, 0%nat, 1%nat. vm_compute. split; [lia|split; [reflexivity|split; [reflexivity|discriminate]]].
Qed.

Definition mkop (i r : N) (c : Spec.mop) (x : Spec.mres) : hop :=
  {| Hist.inv := i; Hist.resp := r; Hist.call := c; Hist.ret := x |}.

Theorem lazymap_prerepair_history_rejected :
  quiescent (run false ex_progs ex_sched0) = true /\
  history false ex_progs ex_sched0 =
    [ mkop 0 6 (Spec.Store 1 10 0) Spec.RUnit;
      mkop 10 20 (Spec.LoadAndDelete 1) (Spec.RGet 10 true);
      mkop 7 21 (Spec.Store 1 20 0) Spec.RUnit;
      mkop 22 23 (Spec.Load 1) (Spec.RGet 0 false) ] /\
  Check.map_lin_check [] (history false ex_progs ex_sched0) = false.
Proof. vm_compute. auto. Qed.

Theorem lazymap_repaired_history_accepted :
  quiescent (run true ex_progs ex_sched1) = true /\
  history true ex_progs ex_sched1 =
    [ mkop 0 6 (Spec.Store 1 10 0) Spec.RUnit;
      mkop 9 19 (Spec.LoadAndDelete 1) (Spec.RGet 10 true);
      mkop 7 28 (Spec.Store 1 20 0) Spec.RUnit;
      mkop 30 33 (Spec.Load 1) (Spec.RGet 20 true) ] /\
  Check.map_lin_check [] (history true ex_progs ex_sched1) = true.
Proof. vm_compute. auto. Qed.

(* the schedule that defeats the pre-repair code is harmless for the repaired code (thread 0 spins on the lock) *)
Example lazymap_repaired_same_schedule :
  Check.map_lin_check [] (history true ex_progs ex_sched0) = true.
Proof. vm_compute. reflexivity. Qed.

(* non-vacuity: the program counters the theorems talk about are reached *)
Example lazymap_reach_SWrite :
  pc_of (run true ex_progs (repeat 0%nat 12)) 0 = SWrite 1 20 1.
Proof. vm_compute. reflexivity. Qed.

Example lazymap_reach_RRead :
  pc_of (run true ex_progs (repeat 0%nat 7 ++ repeat 1%nat 10)) 1 = RRead 1.
Proof. vm_compute. reflexivity. Qed.

Example lazymap_reach_SFull :
  pc_of (run true ex_progs (repeat 0%nat 5)) 0 = SFull 1 10 0 1.
Proof. vm_compute. reflexivity. Qed.

Print Assumptions lazymap_lock_owner.
Print Assumptions lazymap_value_write.
Print Assumptions lazymap_marked_frozen.
Print Assumptions lazymap_lad_victim_marked.
Print Assumptions lazymap_lad_mark_step.
Print Assumptions lazymap_lad_returns_last.
Print Assumptions lazymap_lad_returns_marked_value.
Print Assumptions lazymap_store_visible.
Print Assumptions lazymap_prerepair_refuted.
Print Assumptions lazymap_prerepair_history_rejected.
Print Assumptions lazymap_repaired_history_accepted.
Print Assumptions irun_run.
