(* C04 protocol model WITH VALUES (LazyMap.v, repaired code): the reachability invariant [Inv3] over all schedules.
     - next pointers of an existing node are written only at the link steps (SLink, OLink) and the unlink step (RUnlink),
       by the holder of the node's lock, and what these two program counters have validated under the lock
       (predecessor not marked, predecessor.next) stays true until they act;
     - every unmarked node is reachable from the header;
     - a step keeps every path to a node that is not marked, and after a step that changed the next pointer of a
       node this node is not marked (hence reachable). *)
From VF Require Import Common.Base C04.LazyMap C04.ProofsLazyMap C04.LzmReach.
Local Open Scope Z_scope.

Notation vl h i := (value (get h i)).

(* ---------- which action can change the next pointer of an existing node ---------- *)
Definition nwrites (h h' : heap) (p : pc) (i : nat) : Prop :=
  nx h' i <> nx h i -> (exists k v s, p = SLink k v i s) \/ (exists k v, p = RUnlink k i v) \/
                       (exists k v lz n s, p = OLink k v lz n i s).

Lemma action_nwrites rep h t p i : valid h i -> nwrites h (fst (action rep h t p)) p i.
Proof.
  intros V.
  assert (FLAG : forall j f q, (forall m, next (f m) = next m) -> nwrites h (setn h j f) q i).
  { intros j f q A N. exfalso. apply N. now apply (fld_setn next). }
  assert (SAME : forall q, nwrites h h q i) by (intros q N; congruence).
  destruct p; cbn [action].
  all: try match goal with
       | |- context [match acquire ?hh ?tt ?i with Some _ => _ | None => _ end] =>
           let E := fresh "Ea" in destruct (acquire hh tt i) eqn:E;
           [apply acquire_some in E; destruct E as [-> E]|]
       end.
  all: repeat match goal with
              | |- context [match next ?x with Some _ => _ | None => _ end] => destruct (next x)
              | |- context [match ?m with Some _ => _ | None => _ end] => destruct m
              | |- context [if ?b then _ else _] => destruct b eqn:?
              end; cbn [fst snd].
  all: try apply SAME.
  all: try (apply FLAG; reflexivity).
  - (* SLink *) intros N. left. destruct (Nat.eq_dec i pred) as [->|D]; [eauto|]. exfalso. apply N.
    rewrite get_setn_other by exact D. now rewrite get_app_old.
  - (* RUnlink *) intros N. right. left. destruct (Nat.eq_dec i pred) as [->|D]; [eauto|]. exfalso. apply N.
    now rewrite get_setn_other.
  - (* OLink *) intros N. right. right. destruct (Nat.eq_dec i pred) as [->|D]; [eauto 8|]. exfalso. apply N.
    rewrite get_setn_other by exact D. now rewrite get_app_old.
Qed.

Lemma trans_nwrites rep h t p h' p' i : valid h i -> trans rep h t p h' p' -> nwrites h h' p i.
Proof.
  intros V [(R & -> & _)|(R & -> & ->)]; [intros N; congruence|now apply action_nwrites].
Qed.

(* ---------- what the link and the unlink step have validated ---------- *)
Definition tk3 (h : heap) (p : pc) : Prop :=
  match p with
  | SLink _ _ pred succ | OCall _ _ _ _ pred succ | OLink _ _ _ _ pred succ =>
      mkd h pred = false /\ nx h pred = succ
  | RUnlink _ pred v => mkd h pred = false /\ nx h pred = Some v
  | _ => True
  end.

Definition R1 (h : heap) : Prop := forall i, valid h i -> mkd h i = false -> reach h 0 i.

Record Step3 (h h' : heap) : Prop := {
  s3_r1 : R1 h';
  s3_reach : forall a b, reach h a b -> mkd h b = false -> reach h' a b;
  s3_next : forall i, valid h i -> nx h' i <> nx h i -> mkd h' i = false }.

Lemma step3_same h : R1 h -> Step3 h h.
Proof. intros R. split; [exact R|auto|]. intros i _ N. congruence. Qed.

Lemma step3_flags h i f : (forall n, next (f n) = next n) -> (forall n, marked n = true -> marked (f n) = true) ->
  R1 h -> Step3 h (setn h i f).
Proof.
  intros Hn Hm R.
  assert (RE : forall a b, reach h a b -> reach (setn h i f) a b).
  { apply reach_same_next. intros j. now apply (fld_setn next). }
  assert (MK : forall j, mkd (setn h i f) j = false -> mkd h j = false).
  { intros j M. destruct (mkd h j) eqn:E; [|reflexivity].
    rewrite (mono_setn marked h i j f Hm E) in M. discriminate. }
  split.
  - intros j V M. apply RE. apply R; [unfold valid in *; now rewrite setn_length in V|now apply MK].
  - intros a b Rab _. now apply RE.
  - intros j _ N. exfalso. apply N. now apply (fld_setn next).
Qed.

Lemma step3_link h pred k v succ : valid h pred -> mkd h pred = false -> nx h pred = succ -> R1 h ->
  Step3 h (linkh h pred k v succ).
Proof.
  intros V M E R.
  assert (GETP : get (linkh h pred k v succ) pred = set_next (Some (length h)) (get h pred)).
  { rewrite get_linkh by exact V. destruct (Nat.eq_dec pred pred); [reflexivity|congruence]. }
  assert (GET : forall j, valid h j -> j <> pred -> get (linkh h pred k v succ) j = get h j).
  { intros j Vj Nj. rewrite get_linkh by exact V. destruct (Nat.eq_dec j pred); [congruence|].
    unfold valid in Vj. destruct (Nat.eq_dec j (length h)); [lia|reflexivity]. }
  split.
  - intros j Vj Mj. unfold valid in Vj. rewrite linkh_length in Vj.
    destruct (Nat.eq_dec j (length h)) as [->|N].
    + apply (reach_snoc _ 0%nat pred); [apply reach_linkh; [exact V|exact E|apply R; [exact V|exact M]]|]. rewrite GETP. reflexivity.
    + assert (Vj' : valid h j) by (unfold valid; lia). apply reach_linkh; auto. apply R; [exact Vj'|].
      destruct (Nat.eq_dec j pred) as [->|D]; [exact M|]. now rewrite GET in Mj.
  - intros a b Rab _. now apply reach_linkh.
  - intros j Vj N. destruct (Nat.eq_dec j pred) as [->|D]; [rewrite GETP; exact M|]. exfalso. apply N. now rewrite GET.
Qed.

Lemma step3_unlink h pred v : valid h pred -> pred <> v -> mkd h pred = false -> nx h pred = Some v ->
  mkd h v = true -> R1 h -> Step3 h (unlinkh h pred v).
Proof.
  intros V N M E Mv R.
  assert (MK : forall j, mkd (unlinkh h pred v) j = mkd h j).
  { intros j. unfold unlinkh. now apply (fld_setn marked). }
  split.
  - intros j Vj Mj. apply valid_setn in Vj. rewrite MK in Mj.
    apply reach_unlinkh; auto. intros ->. congruence.
  - intros a b Rab Mb. apply reach_unlinkh; auto. intros ->. congruence.
  - intros j Vj Nn. rewrite MK. destruct (Nat.eq_dec j pred) as [->|D]; [exact M|]. exfalso. apply Nn.
    unfold unlinkh. now rewrite get_setn_other.
Qed.

Lemma opt_nat_eqb_eq a b : opt_nat_eqb a b = true -> a = b.
Proof.
  destruct a, b; simpl; try discriminate; auto. intros E. apply Nat.eqb_eq in E. congruence.
Qed.

Ltac split_action :=
  try match goal with
      | |- context [match acquire ?hh ?tt ?i with Some _ => _ | None => _ end] =>
          let E := fresh "Ea" in destruct (acquire hh tt i) eqn:E;
          [apply acquire_some in E; destruct E as [-> E]|]
      end;
  repeat match goal with
         | |- context [match next ?x with Some _ => _ | None => _ end] => destruct (next x)
         | |- context [match ?m with Some _ => _ | None => _ end] => destruct m
         | |- context [if ?b then _ else _] => destruct b eqn:?
         end; cbn [fst snd].

Lemma action_step3 h t p : pc_ok h p -> pc_flags h p -> tk3 h p -> R1 h -> Step3 h (fst (action true h t p)).
Proof.
  intros P F T R.
  assert (FLAG : forall j f, flag_fn f -> Step3 h (setn h j f)).
  { intros j f (A & B & C & D). apply step3_flags; auto. }
  destruct p; cbn [action]; split_action.
  all: try (apply step3_same; exact R).
  all: try (apply FLAG; solve [auto with lzm]).
  - (* SLink *) cbn [pc_ok tk3] in P, T. destruct P as [[V _] _]. destruct T as [M E].
    exact (step3_link h pred k v succ V M E R).
  - (* RUnlink *) cbn [pc_ok tk3 pc_flags] in P, T, F. destruct T as [M E].
    assert (N : v <> pred) by (eapply pred_neq_victim; apply P). destruct P as [[V _] _].
    apply (step3_unlink h pred v V); auto.
  - (* OLink *) cbn [pc_ok tk3] in P, T. destruct P as [[V _] _]. destruct T as [M E].
    exact (step3_link h pred k v succ V M E R).
Qed.

Lemma action_tk3 h t p : tk3 h p -> tk3 (fst (action true h t p)) (snd (action true h t p)).
Proof.
  intros T0. destruct p; cbn [action]; split_action; cbn [tk3] in *; try exact I.
  all: try exact T0.
  (* OValid -> OCall / OLink *)
  all: match goal with H : _ && _ = true |- _ => apply andb_true_iff in H as [H1 H3]; try (apply andb_true_iff in H1 as [H1 H2]) end;
    apply negb_true_iff in H1; apply opt_nat_eqb_eq in H3; auto.
Qed.

(* what the link / unlink step has validated survives a transition of another thread *)
Lemma tk3_stable h h' p q t u : u <> t -> own h t p -> own h u q -> pc_ok h q -> tk3 h q ->
  (forall i, valid h i -> writes h h' p i) -> (forall i, valid h i -> nwrites h h' p i) -> tk3 h' q.
Proof.
  intros N Wt Wu Pq Tq WR NW.
  assert (KEEP : forall i, valid h i -> lk h i = Some u -> mkd h' i = mkd h i /\ nx h' i = nx h i).
  { intros i V L. split.
    - destruct (bool_dec (mkd h' i) (mkd h i)) as [E|E]; [exact E|exfalso].
      destruct (WR i V) as (_ & WM & _). destruct (WM E) as (k0 & p0 & ->).
      assert (lk h i = Some t) by (apply Wt; cbn; auto). congruence.
    - assert (D : {nx h' i = nx h i} + {nx h' i <> nx h i}) by (decide equality; apply Nat.eq_dec).
      destruct D as [E|E]; [exact E|exfalso].
      destruct (NW i V E) as [(k0 & v0 & s0 & ->)|[(k0 & v0 & ->)|(k0 & v0 & lz0 & n0 & s0 & ->)]];
        assert (lk h i = Some t) by (apply Wt; cbn; auto); congruence. }
  destruct q; cbn [tk3] in *; auto.
  - cbn [pc_ok] in Pq. destruct Pq as [[V _] _].
    destruct (KEEP pred V) as [A B]; [apply Wu; cbn; auto|]. rewrite A, B. exact Tq.
  - cbn [pc_ok] in Pq. destruct Pq as [[V _] _].
    destruct (KEEP pred V) as [A B]; [apply Wu; cbn; auto|]. rewrite A, B. exact Tq.
  - cbn [pc_ok] in Pq. destruct Pq as [[V _] _].
    destruct (KEEP pred V) as [A B]; [apply Wu; cbn; auto|]. rewrite A, B. exact Tq.
  - cbn [pc_ok] in Pq. destruct Pq as [[V _] _].
    destruct (KEEP pred V) as [A B]; [apply Wu; cbn; auto|]. rewrite A, B. exact Tq.
Qed.

(* ---------- the invariant over every schedule ---------- *)
Record Inv3 (s : state) : Prop := {
  i3_tk : forall t th, nth_error (ths s) t = Some th -> tk3 (hp s) (at_pc th);
  i3_r1 : R1 (hp s) }.

Lemma trans_step3 h t p h' p' : pc_ok h p -> pc_flags h p -> tk3 h p -> R1 h -> trans true h t p h' p' ->
  Step3 h h' /\ tk3 h' p'.
Proof.
  intros P F T R [(Rs & -> & [->|[o ->]])|(Rs & -> & ->)].
  - split; [now apply step3_same|exact I].
  - split; [now apply step3_same|now destruct o].
  - split; [now apply action_step3|now apply action_tk3].
Qed.

Lemma step_inv3 s t : Inv s -> InvR s -> Inv3 s -> Inv3 (step true s t) /\ Step3 (hp s) (hp (step true s t)).
Proof.
  intros [L O P T] [F SF] [TK R].
  destruct (step_cases true s t) as [E|(th & h' & th' & Hth & Tr & E)]; rewrite E.
  - split; [now split|now apply step3_same].
  - destruct (P t th Hth) as [Pt Wt]. pose proof (F t th Hth) as Ft. pose proof (TK t th Hth) as Tt.
    destruct (trans_step3 _ _ _ _ _ Pt Ft Tt R Tr) as [S3 T3]. cbn [hp]. split; [|exact S3].
    split; cbn [hp ths]; [|exact (s3_r1 _ _ S3)].
    intros u thu Hu. apply nth_error_upd in Hu as [[-> ->]|[N Hu]]; [exact T3|].
    destruct (P u thu Hu) as [Pu Wu].
    apply (tk3_stable (hp s) h' (at_pc th) (at_pc thu) t u N Wt Wu Pu (TK u thu Hu)).
    + intros i Vi. eapply trans_writes; eauto.
    + intros i Vi. eapply trans_nwrites; eauto.
Qed.

Lemma init_inv3 progs : Inv3 (init progs).
Proof.
  split; cbn [hp ths init].
  - intros t th Hth. apply nth_error_In in Hth. apply in_map_iff in Hth as (p & <- & _). exact I.
  - intros i V _. unfold valid in V. simpl in V. assert (i = 0%nat) by lia. subst. apply reach_refl.
Qed.

Lemma run_sched_inv3 s sched : Inv s -> InvR s -> Inv3 s ->
  Inv (run_sched true s sched) /\ InvR (run_sched true s sched) /\ Inv3 (run_sched true s sched).
Proof.
  revert s. induction sched as [|t sched IH]; intros s I0 R0 J0; [auto|]. simpl. apply IH.
  - now apply step_inv.
  - now apply step_invR.
  - now apply step_inv3.
Qed.

Theorem lazymap_inv3 progs sched : Inv3 (run true progs sched).
Proof. apply run_sched_inv3; [apply init_inv|apply init_invR|apply init_inv3]. Qed.

Print Assumptions lazymap_inv3.
