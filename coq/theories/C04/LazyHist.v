(* C04 protocol model: the history of an execution of LazySkip.v (definitions only, no proofs).

   [irun progs sched] executes the schedule like [run_sched] and additionally records
     - the completed operations as [Hist.op] records over the SET specification of Spec.v (AddB / RemoveB /
       ContainsB with result RBool): invocation stamp = index of the scheduler step that took the operation from
       the thread's program, response stamp = index of the step that produced [Done r];
     - for the proofs only: with every completed operation a linearization point [e_pt]
         2*m+1 = "the step with index m" (the fullyLinked step of a successful Add, the marking step of a
                  successful Remove), 2*m = "the state before step m" (an unsuccessful Add / successful Contains at
                  their reading step; an unsuccessful Remove / Contains at the FIRST moment inside the operation at
                  which the key was absent from the abstract set), and the indices [i_chg] of the steps that
                  changed the abstract set. [history] forgets the points. *)
From VF Require Import Common.Base Common.Hist C04.Spec C04.Proofs.
From VF Require Import C04.LazySkip.
Local Open Scope Z_scope.

Definition op_key (o : opk) : Z := match o with OAdd k | ORemove k | OContains k => k end.
Definition sop_of (o : opk) : sop :=
  match o with OAdd k => AddB k 0 | ORemove k => RemoveB k | OContains k => ContainsB k end.

Record pend := { p_op : opk; p_inv : nat; p_lp : option nat; p_obs : option nat }.
Record entry := { e_op : op sop mres; e_pt : nat }.
Record ist := { i_s : state; i_n : nat; i_cur : list (option pend); i_log : list entry; i_chg : list nat }.

Definition is_busy (p : pc) : bool := match p with Idle | Done _ => false | _ => true end.
Definition lin_pc (h : heap) (p : pc) : bool :=
  match p with AFull _ _ _ => true | RMark _ _ v => negb (marked (get h v)) | _ => false end.
Definition absent (k : Z) (h : heap) : bool := negb (existsb (Z.eqb k) (abs h)).

Definition set_lp (m : nat) (pd : pend) : pend :=
  {| p_op := p_op pd; p_inv := p_inv pd; p_lp := Some m; p_obs := p_obs pd |}.
Definition set_obs (m : nat) (pd : pend) : pend :=
  {| p_op := p_op pd; p_inv := p_inv pd; p_lp := p_lp pd; p_obs := Some m |}.

(* remember the first moment at which the key of a pending operation is absent *)
Definition obs_upd (h : heap) (m : nat) (c : option pend) : option pend :=
  match c with
  | Some pd => match p_obs pd with
               | Some _ => Some pd
               | None => if absent (op_key (p_op pd)) h then Some (set_obs m pd) else Some pd
               end
  | None => None
  end.

Definition point (pd : pend) (r : bool) (n : nat) : nat :=
  match p_op pd, r with
  | OAdd _, true | ORemove _, true => match p_lp pd with Some m => 2 * m + 1 | None => 0 end
  | OAdd _, false | OContains _, true => 2 * n
  | ORemove _, false | OContains _, false => match p_obs pd with Some m => 2 * m | None => 0 end
  end%nat.

Definition mk_entry (pd : pend) (r : bool) (n : nat) : entry :=
  {| e_op := Build_op (N.of_nat (p_inv pd)) (N.of_nat n) (sop_of (p_op pd)) (RBool r); e_pt := point pd r n |}.

Definition pc_of (s : state) (t : nat) : pc :=
  match nth_error (ths s) t with Some th => at_pc th | None => Idle end.

(* what the acting thread does to its own pending record *)
Definition own_upd (s : state) (n t : nat) (cur : list (option pend)) : list (option pend) :=
  match nth_error (ths s) t with
  | None => cur
  | Some th =>
      if is_busy (at_pc th)
      then if lin_pc (hp s) (at_pc th) then upd cur t (option_map (set_lp n) (nth t cur None)) else cur
      else match todo th with
           | o :: _ => upd cur t (Some {| p_op := o; p_inv := n; p_lp := None; p_obs := None |})
           | [] => cur
           end
  end.

(* the result with which the acting thread completes its operation in this step, if it does *)
Definition fin_res (s : state) (t : nat) : option bool :=
  if is_busy (pc_of s t) then match pc_of (step s t) t with Done r => Some r | _ => None end else None.

Definition istep (g : ist) (t : nat) : ist :=
  let s := i_s g in let n := i_n g in
  let s' := step s t in
  let cur1 := own_upd s n t (i_cur g) in
  let chg' := if is_busy (pc_of s t) && lin_pc (hp s) (pc_of s t) then i_chg g ++ [n] else i_chg g in
  match fin_res s t, nth t cur1 None with
  | Some r, Some pd =>
      {| i_s := s'; i_n := Datatypes.S n; i_cur := map (obs_upd (hp s') (Datatypes.S n)) (upd cur1 t None);
         i_log := i_log g ++ [mk_entry pd r n]; i_chg := chg' |}
  | _, _ =>
      {| i_s := s'; i_n := Datatypes.S n; i_cur := map (obs_upd (hp s') (Datatypes.S n)) cur1;
         i_log := i_log g; i_chg := chg' |}
  end.

Definition iinit (progs : list (list opk)) : ist :=
  {| i_s := init progs; i_n := 0; i_cur := map (fun _ => None) progs; i_log := []; i_chg := [] |}.

Definition irun (progs : list (list opk)) (sched : list nat) : ist := fold_left istep sched (iinit progs).

(* the recorded history of the execution *)
Definition history (progs : list (list opk)) (sched : list nat) : list (op sop mres) :=
  map e_op (i_log (irun progs sched)).

(* every thread has run its whole program *)
Definition complete (s : state) : bool :=
  forallb (fun th => match at_pc th, todo th with Idle, [] => true | _, _ => false end) (ths s).
