(* C04 sequential model (SkipSeq) of structure/maps/skipmap and structure/sets/skipset as they run
   with a single caller: the level-0 chain of nodes (key, value, height), the cached [length]
   counter and [highestLevel]. Node heights come from an oracle carried by the operation (what
   randomLevel() returned in that call); the harness observes them through verif accessors.

   What is mirrored from the code: the level-0 walk of findNode/findNodeDelete (lessthan, then equal),
   randomlevel() raising highestLevel (Store/AddB draw before searching, LoadOrStore(Lazy) only when
   the key is absent), linking a node on layers 0..level-1 (so a node of level 0 would be linked
   nowhere while the counter still grows), Delete/LoadAndDelete/RemoveB acting only when the layer at
   which the node was found is its top layer (int(level)-1 == lFound, lFound = min(level, highestLevel)-1
   in a sequential run), the counter updates, Clear (fresh header, highestLevel := 3, and -- since
   the repair of D8 -- length := 0), Range/Keys/Values walking level 0, Len/Size/Empty reading the counter.
   Not mirrored: the upper express lanes as separate chains (a node of height h is on lanes 0..h-1 by
   construction), locks, flags and retries (they never fire with one caller). No proofs in this file. *)
From VF Require Import Common.Base C04.Spec.
Local Open Scope Z_scope.

Definition run {S O R} (step : S -> O -> S * R) : S -> list O -> S * list R :=
  fix go s ops := match ops with
                  | [] => (s, [])
                  | o :: t => let '(s1, r) := step s o in
                              let '(s2, rs) := go s1 t in (s2, r :: rs)
                  end.

Record node := { nk : Z; nv : Z; nh : nat }.
Record skm := { nodes : list node; len : Z; hl : nat }.

Definition defaultHighestLevel := 3%nat.
Definition sm0 : skm := {| nodes := []; len := 0; hl := defaultHighestLevel |}.

(* findNode on level 0: advance while lessthan, then test equal *)
Fixpoint find_node (k : Z) (l : list node) : option node :=
  match l with
  | [] => None
  | n :: t => if nk n <? k then find_node k t else if nk n =? k then Some n else None
  end.

(* preds[0].next := nn ; nn.next := succs[0] *)
Fixpoint link (n : node) (l : list node) : list node :=
  match l with
  | [] => [n]
  | m :: t => if nk m <? nk n then m :: link n t else n :: l
  end.

(* nodeFound.storeVal(value) *)
Fixpoint setval (k v : Z) (l : list node) : list node :=
  match l with
  | [] => []
  | n :: t => if nk n <? k then n :: setval k v t
              else if nk n =? k then {| nk := nk n; nv := v; nh := nh n |} :: t else l
  end.

(* preds[0].next := nodeToDelete.next *)
Fixpoint unlink (k : Z) (l : list node) : list node :=
  match l with
  | [] => []
  | n :: t => if nk n <? k then n :: unlink k t else if nk n =? k then t else l
  end.

(* randomlevel(): the drawn level h raises highestLevel *)
Definition randomlevel (h : nat) (s : skm) : skm :=
  {| nodes := nodes s; len := len s; hl := Nat.max (hl s) h |}.

(* the insertion tail shared by Store / LoadOrStore / LoadOrStoreLazy / AddB:
   link on layers 0..h-1 (nothing when h = 0), then length++ *)
Definition add_node (k v : Z) (h : nat) (s : skm) : skm :=
  {| nodes := if Nat.eqb h 0 then nodes s else link {| nk := k; nv := v; nh := h |} (nodes s);
     len := len s + 1; hl := hl s |}.

(* lFound of findNodeDelete for a node of height h when highestLevel = hl (sequential run) *)
Definition lfound (h hlv : nat) : nat := (Nat.min h hlv - 1)%nat.

(* the deletion shared by Delete / LoadAndDelete / RemoveB; returns the node removed *)
Definition del_node (k : Z) (s : skm) : skm * option node :=
  match find_node k (nodes s) with
  | Some n =>
      if Nat.eqb (nh n - 1) (lfound (nh n) (hl s))
      then ({| nodes := unlink k (nodes s); len := len s - 1; hl := hl s |}, Some n)
      else (s, None)
  | None => (s, None)
  end.

Definition pairs_of (l : list node) : list (Z * Z) := map (fun n => (nk n, nv n)) l.

Definition store (k v : Z) (h : nat) (s : skm) : skm :=
  let s1 := randomlevel h s in
  match find_node k (nodes s1) with
  | Some _ => {| nodes := setval k v (nodes s1); len := len s1; hl := hl s1 |}
  | None => add_node k v h s1
  end.

Definition skipmap_step (s : skm) (o : mop) : skm * mres :=
  match o with
  | Store k v h | Put k v h => (store k v h s, RUnit)
  | Load k | Get k =>
      (s, match find_node k (nodes s) with Some n => RGet (nv n) true | None => RGet 0 false end)
  | LoadOrStore k v h =>
      match find_node k (nodes s) with
      | Some n => (s, RLoS (nv n) true)
      | None => (add_node k v h (randomlevel h s), RLoS v false)
      end
  | LoadOrStoreLazy k v h =>
      match find_node k (nodes s) with
      | Some n => (s, RLazy (nv n) true 0)
      | None => (add_node k v h (randomlevel h s), RLazy v false 1)    (* value := f() once, after validation *)
      end
  | LoadAndDelete k =>
      match del_node k s with
      | (s1, Some n) => (s1, RGet (nv n) true)
      | (s1, None) => (s1, RGet 0 false)
      end
  | Delete k => match del_node k s with (s1, Some _) => (s1, RBool true) | (s1, None) => (s1, RBool false) end
  | Remove k => (fst (del_node k s), RUnit)
  | Range limit => (s, RPairs (upto limit (pairs_of (nodes s))))
  | Len | Size => (s, RInt (len s))
  | Empty => (s, RBool (len s =? 0))
  | Clear => ({| nodes := []; len := 0; hl := defaultHighestLevel |}, RUnit)
  | Keys => (s, RList (map nk (nodes s)))
  | Values => (s, RList (map nv (nodes s)))
  end.

(* ---- skipset: same node chain, the element is the key, values unused (0) ---- *)
Definition addb (x : Z) (h : nat) (s : skm) : skm * bool :=
  let s1 := randomlevel h s in
  match find_node x (nodes s1) with
  | Some _ => (s1, false)
  | None => (add_node x 0 h s1, true)
  end.

Definition containsb (x : Z) (s : skm) : bool :=
  match find_node x (nodes s) with Some _ => true | None => false end.

Definition skipset_step (s : skm) (o : sop) : skm * mres :=
  match o with
  | AddB x h => let '(s1, b) := addb x h s in (s1, RBool b)
  | Add xs => (fold_left (fun s' xh => fst (addb (fst xh) (snd xh) s')) xs s, RUnit)
  | ContainsB x => (s, RBool (containsb x s))
  | Contains xs => (s, RBool (forallb (fun x => containsb x s) xs))
  | RemoveB x => match del_node x s with (s1, Some _) => (s1, RBool true) | (s1, None) => (s1, RBool false) end
  | SRemove xs => (fold_left (fun s' x => fst (del_node x s')) xs s, RUnit)
  | SRange limit => (s, RList (upto limit (map nk (nodes s))))
  | SLen | SSize => (s, RInt (len s))
  | SEmpty => (s, RBool (len s =? 0))
  | SClear => ({| nodes := []; len := 0; hl := defaultHighestLevel |}, RUnit)
  | SValues => (s, RList (map nk (nodes s)))
  end.

(* the oracle premise: randomLevel() returns at least 1 *)
Definition mop_height (o : mop) : option nat :=
  match o with
  | Store _ _ h | Put _ _ h | LoadOrStore _ _ h | LoadOrStoreLazy _ _ h => Some h
  | _ => None
  end.
Definition mheights_pos (ops : list mop) : Prop :=
  forall o h, In o ops -> mop_height o = Some h -> (1 <= h)%nat.
Definition sheights_pos (ops : list sop) : Prop :=
  forall o, In o ops ->
    match o with
    | AddB _ h => (1 <= h)%nat
    | Add xs => forall xh, In xh xs -> (1 <= snd xh)%nat
    | _ => True
    end.
