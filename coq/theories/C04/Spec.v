(* C04 abstract specification: a finite map Z -> Z kept as an association list with strictly
   ascending keys, and a finite set of Z kept as a strictly ascending list. Lookup and deletion
   are the plain association-list ones (first match / remove every match): they make no use of the
   ordering, so the specification is a finite map by inspection; only insertion places the key in
   order, which is what "Range visits keys in strictly ascending order" refers to.

   Operations carry the height oracle [h] of the skip list (what randomLevel() returned in the call);
   the specification ignores it. *)
From VF Require Import Common.Base.
Local Open Scope Z_scope.

Definition fmap := list (Z * Z).

Definition fm_get (k : Z) (m : fmap) : option Z :=
  option_map snd (find (fun p => fst p =? k) m).

Definition fm_del (k : Z) (m : fmap) : fmap := filter (fun p => negb (fst p =? k)) m.

Fixpoint fm_put (k v : Z) (m : fmap) : fmap :=
  match m with
  | [] => [(k, v)]
  | (k', v') :: t => if k <? k' then (k, v) :: m
                     else if k =? k' then (k, v) :: t
                     else (k', v') :: fm_put k v t
  end.

(* Range with a callback that answers false at its [limit]-th call (limit = 0: never) *)
Definition upto {A} (limit : nat) (l : list A) : list A :=
  match limit with O => l | _ => firstn limit l end.

Inductive mop :=
| Store (k v : Z) (h : nat) | Load (k : Z) | LoadOrStore (k v : Z) (h : nat)
| LoadOrStoreLazy (k v : Z) (h : nat)          (* v = what the constructor returns if it is called *)
| LoadAndDelete (k : Z) | Delete (k : Z) | Range (limit : nat) | Len | Clear
| Keys | Values | Size | Empty | Put (k v : Z) (h : nat) | Get (k : Z) | Remove (k : Z).

Inductive mres :=
| RUnit
| RGet (v : Z) (ok : bool)                     (* Load / Get / LoadAndDelete: (value or zero, found) *)
| RLoS (v : Z) (loaded : bool)
| RLazy (v : Z) (loaded : bool) (calls : nat)  (* calls = how often the constructor ran *)
| RBool (b : bool)
| RPairs (l : list (Z * Z))
| RInt (n : Z)
| RList (l : list Z)
| RPanic.                                      (* the call panicked: never produced by the Spec or the Model *)

Definition fmap_step (m : fmap) (o : mop) : fmap * mres :=
  match o with
  | Store k v _ | Put k v _ => (fm_put k v m, RUnit)
  | Load k | Get k => (m, match fm_get k m with Some v => RGet v true | None => RGet 0 false end)
  | LoadOrStore k v _ =>
      match fm_get k m with Some v' => (m, RLoS v' true) | None => (fm_put k v m, RLoS v false) end
  | LoadOrStoreLazy k v _ =>
      match fm_get k m with Some v' => (m, RLazy v' true 0) | None => (fm_put k v m, RLazy v false 1) end
  | LoadAndDelete k =>
      match fm_get k m with Some v' => (fm_del k m, RGet v' true) | None => (m, RGet 0 false) end
  | Delete k => match fm_get k m with Some _ => (fm_del k m, RBool true) | None => (m, RBool false) end
  | Remove k => (fm_del k m, RUnit)
  | Range limit => (m, RPairs (upto limit m))
  | Len | Size => (m, RInt (Z.of_nat (length m)))
  | Empty => (m, RBool (Nat.eqb (length m) 0))
  | Clear => ([], RUnit)
  | Keys => (m, RList (map fst m))
  | Values => (m, RList (map snd m))
  end.

(* ---- set ---- *)
Definition fset := list Z.

Definition fs_mem (x : Z) (s : fset) : bool := existsb (Z.eqb x) s.
Definition fs_del (x : Z) (s : fset) : fset := filter (fun y => negb (y =? x)) s.
Fixpoint fs_add (x : Z) (s : fset) : fset :=
  match s with
  | [] => [x]
  | y :: t => if x <? y then x :: s else if x =? y then s else y :: fs_add x t
  end.

Inductive sop :=
| AddB (x : Z) (h : nat) | Add (xs : list (Z * nat)) | ContainsB (x : Z) | Contains (xs : list Z)
| RemoveB (x : Z) | SRemove (xs : list Z) | SRange (limit : nat) | SLen | SSize | SEmpty | SClear | SValues.

Definition fset_step (s : fset) (o : sop) : fset * mres :=
  match o with
  | AddB x _ => if fs_mem x s then (s, RBool false) else (fs_add x s, RBool true)
  | Add xs => (fold_left (fun s' xh => fs_add (fst xh) s') xs s, RUnit)
  | ContainsB x => (s, RBool (fs_mem x s))
  | Contains xs => (s, RBool (forallb (fun x => fs_mem x s) xs))
  | RemoveB x => if fs_mem x s then (fs_del x s, RBool true) else (s, RBool false)
  | SRemove xs => (fold_left (fun s' x => fs_del x s') xs s, RUnit)
  | SRange limit => (s, RList (upto limit s))
  | SLen | SSize => (s, RInt (Z.of_nat (length s)))
  | SEmpty => (s, RBool (Nat.eqb (length s) 0))
  | SClear => ([], RUnit)
  | SValues => (s, RList s)
  end.

(* boolean equalities used by the checkers *)
Definition pairZ_eqb (a b : Z * Z) := (fst a =? fst b) && (snd a =? snd b).

Definition mres_eqb (a b : mres) : bool :=
  match a, b with
  | RUnit, RUnit | RPanic, RPanic => true
  | RGet v o, RGet v' o' => (v =? v') && Bool.eqb o o'
  | RLoS v o, RLoS v' o' => (v =? v') && Bool.eqb o o'
  | RLazy v o c, RLazy v' o' c' => (v =? v') && Bool.eqb o o' && Nat.eqb c c'
  | RBool x, RBool y => Bool.eqb x y
  | RPairs l, RPairs l' => list_eqb pairZ_eqb l l'
  | RInt n, RInt n' => n =? n'
  | RList l, RList l' => list_eqb Z.eqb l l'
  | _, _ => false
  end.

Definition mop_eqb (a b : mop) : bool :=
  match a, b with
  | Store k v h, Store k' v' h' | LoadOrStore k v h, LoadOrStore k' v' h'
  | LoadOrStoreLazy k v h, LoadOrStoreLazy k' v' h' | Put k v h, Put k' v' h' =>
      (k =? k') && (v =? v') && Nat.eqb h h'
  | Load k, Load k' | LoadAndDelete k, LoadAndDelete k' | Delete k, Delete k'
  | Get k, Get k' | Remove k, Remove k' => k =? k'
  | Range n, Range n' => Nat.eqb n n'
  | Len, Len | Clear, Clear | Keys, Keys | Values, Values | Size, Size | Empty, Empty => true
  | _, _ => false
  end.

Definition zn_eqb (a b : Z * nat) := (fst a =? fst b) && Nat.eqb (snd a) (snd b).

Definition sop_eqb (a b : sop) : bool :=
  match a, b with
  | AddB x h, AddB x' h' => (x =? x') && Nat.eqb h h'
  | Add l, Add l' => list_eqb zn_eqb l l'
  | ContainsB x, ContainsB x' | RemoveB x, RemoveB x' => x =? x'
  | Contains l, Contains l' | SRemove l, SRemove l' => list_eqb Z.eqb l l'
  | SRange n, SRange n' => Nat.eqb n n'
  | SLen, SLen | SSize, SSize | SEmpty, SEmpty | SClear, SClear | SValues, SValues => true
  | _, _ => false
  end.
