(* C04 protocol model: the history of every complete execution of LazySkip.v is linearizable w.r.t. the set
   specification (Spec.fset_step), in the sense of Common/Hist.v; consequences for racing operations on one key. *)
From VF Require Import Common.Base Common.Hist C04.Spec C04.Proofs.
From VF Require Import C04.LazySkip C04.ProofsLazy C04.LazyReach C04.LazyEff C04.LazyLock C04.LazyProgress
  C04.LazyHist C04.LazyTrace C04.LinPoints C04.LazyLinz.
From Coq Require Import Nnat.
Local Open Scope Z_scope.

Lemma fs_add_in x z S : In z (fs_add x S) <-> z = x \/ In z S.
Proof.
  induction S as [|y S IH]; simpl; [intuition|].
  destruct (x <? y); [simpl; intuition|]. destruct (x =? y) eqn:E.
  - apply Z.eqb_eq in E. subst. simpl. intuition.
  - simpl. rewrite IH. intuition.
Qed.

Lemma fs_del_in x z S : In z (fs_del x S) <-> z <> x /\ In z S.
Proof.
  unfold fs_del. rewrite filter_In, negb_true_iff, Z.eqb_neq. tauto.
Qed.

Lemma fs_mem_false x S : fs_mem x S = false <-> ~ In x S.
Proof.
  split.
  - intros E I. apply fs_mem_in in I. congruence.
  - intros N. destruct (fs_mem x S) eqn:E; [|reflexivity]. apply fs_mem_in in E. contradiction.
Qed.

Lemma flat_lpl_none l : (forall t, nth t l None = None) -> flat_map lpl l = [].
Proof.
  induction l as [|c l IH]; intros X; [reflexivity|]. simpl. pose proof (X 0%nat) as X0. simpl in X0. subst c.
  simpl. apply IH. intros t. exact (X (Datatypes.S t)).
Qed.

Lemma complete_spec s : complete s = true <-> forall th, In th (ths s) -> at_pc th = Idle /\ todo th = [].
Proof.
  unfold complete. rewrite forallb_forall. split; intros X th Hin; specialize (X th Hin).
  - destruct (at_pc th); try discriminate. destruct (todo th); [auto|discriminate].
  - destruct X as [-> ->]. reflexivity.
Qed.

Section Final.
Variable progs : list (list opk).
Variable sched : list nat.
Notation ST := (st progs sched).
Notation IR := (ir progs sched).
Let N := length sched.

Definition Rel (S : fset) (m : nat) : Prop := forall x, In x S <-> In x (abs (hp (ST m))).

Lemma ir_full : IR N = irun progs sched.
Proof. unfold ir, N. now rewrite firstn_all. Qed.

Lemma mpt_in e m : In m (mpt e) <-> e_pt e = (2 * m + 1)%nat.
Proof.
  unfold mpt. destruct (Nat.odd (e_pt e)) eqn:O.
  - cbn [In]. split.
    + intros [<-|[]]. apply Nat.odd_spec in O. destruct O as [q Eq]. rewrite Eq, div2_2m1. reflexivity.
    + intros E. left. rewrite E. apply div2_2m1.
  - cbn [In]. split; [tauto|]. intros E. rewrite E, odd_2m1 in O. discriminate.
Qed.

Lemma block_unique (l : list entry) e m : NoDup (flat_map mpt l) -> In e l -> e_pt e = (2 * m + 1)%nat ->
  block entry e_pt l (2 * m + 1) = [e].
Proof.
  induction l as [|a l IH]; intros ND Hin Ept; [destruct Hin|]. cbn [flat_map] in ND. unfold block in *. cbn [filter].
  assert (NOTIN : ~ In m (flat_map mpt l) -> filter (fun e0 => Nat.eqb (e_pt e0) (2 * m + 1)) l = []).
  { intros X. destruct (filter _ l) as [|b r] eqn:F; [reflexivity|]. exfalso.
    assert (Hb : In b (filter (fun e0 => Nat.eqb (e_pt e0) (2 * m + 1)) l)) by (rewrite F; now left).
    apply filter_In in Hb as [Hb Eb]. apply Nat.eqb_eq in Eb. apply X. apply in_flat_map. exists b. split; [exact Hb|now apply mpt_in]. }
  destruct (Nat.eqb_spec (e_pt a) (2 * m + 1)) as [Ea|Na].
  - assert (Ma : mpt a = [m]).
    { unfold mpt. rewrite Ea, odd_2m1, div2_2m1. reflexivity. }
    rewrite Ma in ND. cbn [app] in ND. inversion ND as [|x r Nx NDr]; subst.
    rewrite (NOTIN Nx). destruct Hin as [->|Hin]; [reflexivity|].
    exfalso. apply Nx. apply in_flat_map. exists e. split; [exact Hin|now apply mpt_in].
  - destruct Hin as [->|Hin]; [congruence|]. apply IH; auto.
    clear - ND. induction (mpt a) as [|x r IHr]; [exact ND|]. cbn [app] in ND. inversion ND. auto.
Qed.

Lemma block_none (l : list entry) m : ~ In m (flat_map mpt l) -> block entry e_pt l (2 * m + 1) = [].
Proof.
  intros X. unfold block. destruct (filter _ l) as [|b r] eqn:F; [reflexivity|]. exfalso.
  assert (Hb : In b (filter (fun e0 => Nat.eqb (e_pt e0) (2 * m + 1)) l)) by (rewrite F; now left).
  apply filter_In in Hb as [Hb Eb]. apply Nat.eqb_eq in Eb. apply X. apply in_flat_map. exists b. split; [exact Hb|now apply mpt_in].
Qed.

Theorem lazy_lin_to : complete (run_sched (init progs) sched) = true ->
  exists S', lin_to fset sop mres fset_step [] (history progs sched) S' /\
             forall x, In x S' <-> In x (abs (hp (run_sched (init progs) sched))).
Proof.
  intros CP. pose proof (ti_all progs sched N (le_n _)) as TIN. destruct TIN as [TL TT TLG TP TCL TCN TCF].
  assert (STN : ST N = run_sched (init progs) sched) by (unfold st; rewrite ir_full; apply irun_state).
  (* nothing is pending *)
  assert (CUR : flat_map lpl (i_cur (IR N)) = []).
  { apply flat_lpl_none. intros t. destruct (nth_error (ths (ST N)) t) as [th|] eqn:E.
    - specialize (TT t th E). destruct (nth t (i_cur (IR N)) None) as [pd|]; [|reflexivity].
      destruct TT as [Bz _]. rewrite STN in E. apply nth_error_In in E.
      destruct (proj1 (complete_spec _) CP th E) as [Ei _]. rewrite Ei in Bz. discriminate.
    - apply nth_overflow. rewrite TL. now apply nth_error_None. }
  rewrite CUR, app_nil_r in TP.
  assert (ND : NoDup (flat_map mpt (i_log (IR N)))) by (eapply Permutation_NoDup; [symmetry; exact TP|exact TCN]).
  destruct (points_linearizable fset sop mres entry fset_step e_op e_pt Rel (i_log (IR N)) N) with (s0 := @nil Z)
    as (S' & LT & RS').
  - (* inside the interval *)
    intros e He. destruct (TLG e He) as (a & b & o & r & Eo & L & X). unfold inside. rewrite Eo. cbn [inv resp].
    rewrite !Nat2N.id. destruct X as [(m & Ep & Lm & _)|(m & t & Ep & Lm & _)]; rewrite Ep; lia.
  - intros e He. destruct (TLG e He) as (a & b & o & r & Eo & L & X).
    destruct X as [(m & Ep & Lm & _)|(m & t & Ep & Lm & _)]; rewrite Ep; lia.
  - (* observers *)
    intros e m He Ept. destruct (TLG e He) as (a & b & o & r & Eo & L & X).
    destruct X as [(m1 & Ep & Lm & F)|(m1 & t & Ep & _)]; [|lia]. assert (m1 = m) by lia. subst m1.
    intros S RS. rewrite Eo. cbn [call ret]. unfold Rel in RS.
    destruct o as [k|k|k], r; simpl in F; try contradiction; cbn [sop_of fset_step].
    + apply absent_false in F. apply RS in F. apply fs_mem_in in F. now rewrite F.
    + apply absent_true in F. assert (X : fs_mem k S = false) by (apply fs_mem_false; intros Y; apply F; now apply RS).
      now rewrite X.
    + apply absent_false in F. apply RS in F. apply fs_mem_in in F. now rewrite F.
    + apply absent_true in F. assert (X : fs_mem k S = false) by (apply fs_mem_false; intros Y; apply F; now apply RS).
      now rewrite X.
  - (* mutators *)
    intros m Lm. destruct (in_dec Nat.eq_dec m (i_chg (IR N))) as [Hin|Hout].
    + right. assert (Hm : In m (flat_map mpt (i_log (IR N)))) by (eapply Permutation_in; [symmetry; exact TP|exact Hin]).
      apply in_flat_map in Hm as (e & He & Me). apply mpt_in in Me. exists e.
      split; [now apply block_unique|].
      destruct (TLG e He) as (a & b & o & r & Eo & L & X).
      destruct X as [(m1 & Ep & _)|(m1 & t & Ep & Lm1 & -> & LS)]; [lia|]. assert (m1 = m) by lia. subst m1.
      destruct LS as (Lms & Et & LS). intros S RS. rewrite Eo. cbn [call ret]. unfold Rel in RS.
      assert (SS : ST (Datatypes.S m) = step (ST m) t) by (rewrite <- Et; now apply st_S).
      destruct o as [k|k|k]; [| |contradiction]; cbn [sop_of fset_step].
      * destruct LS as (pred & nn & Ep'). unfold pc_of in Ep'.
        destruct (nth_error (ths (ST m)) t) as [th|] eqn:E; [|discriminate].
        destruct (add_effect (ST m) (st_linv progs sched m) (st_inv2 progs sched m) t th k pred nn E Ep') as [A1 A2].
        apply absent_true in A1. assert (X : fs_mem k S = false) by (apply fs_mem_false; intros Y; apply A1; now apply RS).
        rewrite X. exists (fs_add k S). split; [reflexivity|]. intros x. rewrite fs_add_in, SS, A2, RS. tauto.
      * destruct LS as (pred & v & Ep' & Mv). unfold pc_of in Ep'.
        destruct (nth_error (ths (ST m)) t) as [th|] eqn:E; [|discriminate].
        destruct (rem_effect (ST m) (st_linv progs sched m) (st_inv2 progs sched m) t th k pred v E Ep' Mv) as [A1 A2].
        apply absent_false in A1. apply RS in A1. apply fs_mem_in in A1.
        rewrite A1. exists (fs_del k S). split; [reflexivity|]. intros x. rewrite fs_del_in, SS, A2, RS. tauto.
    + left. split.
      * apply block_none. intros Hm. apply Hout. eapply Permutation_in; [exact TP|exact Hm].
      * intros S RS x. rewrite (TCF m Lm Hout). apply RS.
  - intros x. unfold st. cbn. split; [intros []|]. intros X. exact X.
  - exists S'. split.
    + unfold history. rewrite <- ir_full. exact LT.
    + intros x. rewrite <- STN. apply RS'.
Qed.

Theorem lazy_linearizable : complete (run_sched (init progs) sched) = true ->
  linearizable fset sop mres fset_step [] (history progs sched).
Proof.
  intros CP. destruct (lazy_lin_to CP) as (S' & LT & _). apply linearizable_lin_to. now exists S'.
Qed.

(* every completed operation (complete execution or not) has its linearization point inside its interval *)
Theorem lazy_points e : In e (i_log (irun progs sched)) -> entry_ok progs sched N e.
Proof. rewrite <- ir_full. apply (ti_log _ _ _ (ti_all progs sched N (le_n _))). Qed.
End Final.
