(* C04 property theorems. Nothing but statements closed by [exact] and Print Assumptions. *)
From VF Require Import Common.Base Common.Hist C04.Spec C04.Model C04.Proofs C04.ProofsRange C04.Check C04.ProofsLin.
From VF Require C04.LazySkip C04.ProofsLazy C04.LazyReach C04.LazyLock C04.LazyProgress C04.LazyHist C04.LazyTrace
  C04.LazyLinz C04.LazyLinThm C04.LazyRace C04.LazyPoints C04.LazyMap C04.ProofsLazyMap C04.LzmHist C04.LzmLinz C04.LzmLinThm.
Local Open Scope Z_scope.

(* single-threaded use matches the reference map / set exactly: for every operation list and every
   height oracle (heights >= 1, what randomLevel() guarantees) the outputs of the sequential skip-list
   model equal the outputs of the finite map / set *)
Theorem C04_seq_map : forall ops, mheights_pos ops ->
  snd (run skipmap_step sm0 ops) = snd (run fmap_step [] ops).
Proof. exact (fun ops H => proj2 (seq_map_refines ops H)). Qed.

Theorem C04_seq_set : forall ops, sheights_pos ops ->
  snd (run skipset_step sm0 ops) = snd (run fset_step [] ops).
Proof. exact (fun ops H => proj2 (seq_set_refines ops H)). Qed.

(* reachable states: the lane-0 chain is the map, the cached length is its size, keys strictly ascend
   (so Range/Keys visit in strictly ascending order), every node height is within highestLevel *)
Theorem C04_seq_map_state : forall ops, mheights_pos ops ->
  let s := fst (run skipmap_step sm0 ops) in
  let m := fst (run fmap_step [] ops) in
  pairs_of (nodes s) = m /\ len s = Z.of_nat (length m) /\ asc (map fst m) /\ hts_ok (hl s) (nodes s).
Proof. exact seq_map_state. Qed.

Theorem C04_seq_set_state : forall ops, sheights_pos ops ->
  let s := fst (run skipset_step sm0 ops) in
  let f := fst (run fset_step [] ops) in
  map nk (nodes s) = f /\ len s = Z.of_nat (length f) /\ asc f.
Proof. exact seq_set_state. Qed.

(* Len / Size / Empty after Clear (the repaired code; D8 on the original) *)
Theorem C04_len_after_clear : forall s,
  snd (skipmap_step (fst (skipmap_step s Clear)) Len) = RInt 0 /\
  snd (skipset_step (fst (skipset_step s SClear)) SLen) = RInt 0 /\
  snd (skipmap_step (fst (skipmap_step s Clear)) Empty) = RBool true.
Proof. exact len_after_clear. Qed.

(* the lazy constructor runs exactly once per successful insert and never otherwise *)
Theorem C04_lazy_once : forall ops k v h, mheights_pos ops ->
  let s := fst (run skipmap_step sm0 ops) in
  exists a loaded calls,
    snd (skipmap_step s (LoadOrStoreLazy k v h)) = RLazy a loaded calls /\
    (loaded = false <-> fm_get k (pairs_of (nodes s)) = None) /\
    calls = (if loaded then 0 else 1)%nat /\
    (loaded = false -> a = v) /\ (loaded = true -> fm_get k (pairs_of (nodes s)) = Some a).
Proof. exact lazy_once. Qed.

(* the Spec is a finite map: the usual laws of get over put / del *)
Theorem C04_spec_map_laws : forall k k2 v m,
  fm_get k (fm_put k v m) = Some v /\ (k2 <> k -> fm_get k2 (fm_put k v m) = fm_get k2 m) /\
  fm_get k (fm_del k m) = None /\ (k2 <> k -> fm_get k2 (fm_del k m) = fm_get k2 m).
Proof.
  exact (fun k k2 v m => conj (fm_get_put_same k v m) (conj (fm_get_put_other k k2 v m)
                           (conj (fm_get_del_same k m) (fm_get_del_other k k2 m)))).
Qed.

(* the history checker that judges every recorded concurrent history is sound and complete *)
Theorem C04_lin_check_map : forall s h,
  map_lin_check s h = true <-> linearizable fmap mop mres fmap_step s h.
Proof. exact map_lin_check_correct. Qed.

Theorem C04_lin_check_set : forall s h,
  set_lin_check s h = true <-> linearizable fset sop mres fset_step s h.
Proof. exact set_lin_check_correct. Qed.

(* cutting a history at a quiescent point and threading the state is exact (justifies judging a long
   run round by round; the harness starts every round on a fresh structure, i.e. from the empty state) *)
Theorem C04_lin_segments : forall (s : fmap) h h1 h2,
  quiescent_cut mop mres h h1 h2 ->
  (linearizable fmap mop mres fmap_step s h <->
   exists s', lin_to fmap mop mres fmap_step s h1 s' /\ linearizable fmap mop mres fmap_step s' h2).
Proof. exact (lin_segments fmap mop mres fmap_step). Qed.

Theorem C04_range_ok_b : forall evs r, range_ok_b evs r = true <-> RangeOK evs r.
Proof. exact range_ok_b_ok. Qed.

(* the per-call judgement applied to every recorded LoadOrStoreLazy call (histories of any size, no search):
   the constructor ran at most once; exactly once, and its value is what the call returned, when the call
   reports stored; not at all when it reports loaded *)
Theorem C04_lazy_calls_b : forall l, forallb lazy_call_ok_b l = true <-> Forall LazyCallOK l.
Proof. exact lazy_calls_ok_spec. Qed.


(* non-vacuity: a trace that inserts (with different heights), overwrites, deletes, clears;
   a linearizable history with two racing inserts of which exactly one wins, and the same history
   with both reporting success, which the checker rejects *)
Example C04_nonvacuous :
  let ops := [Store 5 50 2%nat; LoadOrStoreLazy 3 30 7%nat; LoadOrStore 5 51 1%nat; Store 9 90 1%nat;
              Delete 3; Range 0; Len; Clear; Len] in
  mheights_pos ops /\
  snd (run skipmap_step sm0 ops) =
    [RUnit; RLazy 30 false 1; RLoS 50 true; RUnit; RBool true; RPairs [(5, 50); (9, 90)]; RInt 2; RUnit; RInt 0] /\
  let o a b c r := Build_op a b c r : op mop mres in
  map_lin_check [] [o 1 4 (LoadOrStore 1 10 0%nat) (RLoS 10 false); o 2 3 (LoadOrStore 1 20 0%nat) (RLoS 10 true);
                    o 5 6 Len (RInt 1)]%N = true /\
  map_lin_check [] [o 1 4 (LoadOrStore 1 10 0%nat) (RLoS 10 false); o 2 3 (LoadOrStore 1 20 0%nat) (RLoS 20 false);
                    o 5 6 Len (RInt 1)]%N = false.
Proof.
  cbv zeta. split; [|split; [vm_compute; reflexivity|split; vm_compute; reflexivity]].
  intros o h Hin Hh. simpl in Hin.
  repeat (destruct Hin as [<-|Hin]; [simpl in Hh; inversion Hh; lia || discriminate|]). destruct Hin.
Qed.

(* ---- protocol model (LazySkip.v): the optimistic bottom-lane algorithm, all programs, all schedules ---- *)

(* inductive invariant: the header exists; every next pointer leads to a node with a strictly larger key;
   every thread's program counter only refers to valid nodes with pred.key < k (< succ.key / = victim.key) *)
Theorem C04_lazyskip_inv : forall progs sched,
  ProofsLazy.LInv (LazySkip.run_sched (LazySkip.init progs) sched).
Proof. exact ProofsLazy.lazy_inv. Qed.

(* the chain reachable from the header is strictly ascending, hence holds at most one node per key
   (in particular at most one unmarked node per key) *)
Theorem C04_lazyskip_sorted : forall progs sched fuel,
  let h := LazySkip.hp (LazySkip.run_sched (LazySkip.init progs) sched) in
  asc (LazySkip.chain fuel h (LazySkip.next (LazySkip.get h 0))) /\
  NoDup (LazySkip.chain fuel h (LazySkip.next (LazySkip.get h 0))).
Proof.
  exact (fun progs sched fuel => conj (ProofsLazy.lazy_chain_sorted progs sched fuel)
                                      (ProofsLazy.lazy_chain_nodup progs sched fuel)).
Qed.

(* the abstract set {key x | fullyLinked x, not marked x} changes only when a thread executes the
   fullyLinked := true step of an Add or the marked := true step of a Remove on an unmarked victim *)
Theorem C04_lazyskip_abs_frame : forall progs sched t,
  let s := LazySkip.run_sched (LazySkip.init progs) sched in
  LazySkip.abs (LazySkip.hp (LazySkip.step s t)) <> LazySkip.abs (LazySkip.hp s) ->
  exists th, nth_error (LazySkip.ths s) t = Some th /\
    ((exists k pred nn, LazySkip.at_pc th = LazySkip.AFull k pred nn) \/
     (exists k pred v, LazySkip.at_pc th = LazySkip.RMark k pred v /\
                       LazySkip.marked (LazySkip.get (LazySkip.hp s) v) = false)).
Proof. exact (fun progs sched t => ProofsLazy.lazy_abs_frame _ t (ProofsLazy.lazy_inv progs sched)). Qed.

(* non-vacuity of the protocol model: three threads, round-robin; all operations complete, the chain is
   3 -> 5 -> 7 (the first node with key 5 was removed and a new one inserted) *)
Example C04_lazyskip_nonvacuous :
  let progs := [[LazySkip.OAdd 5; LazySkip.ORemove 5; LazySkip.OAdd 7];
                [LazySkip.OAdd 3; LazySkip.OContains 5; LazySkip.OAdd 5];
                [LazySkip.ORemove 3; LazySkip.OAdd 3]] in
  let s := LazySkip.run_sched (LazySkip.init progs) (flat_map (fun _ => seq 0 3) (seq 0 60)) in
  map LazySkip.at_pc (LazySkip.ths s) = [LazySkip.Idle; LazySkip.Idle; LazySkip.Idle] /\
  LazySkip.chain 10 (LazySkip.hp s) (LazySkip.next (LazySkip.get (LazySkip.hp s) 0)) = [3; 5; 7] /\
  length (LazySkip.hp s) = 5%nat.
Proof. vm_compute. auto. Qed.

(* ---- protocol model, lock discipline (LazyLock.v / LazyProgress.v) ---- *)

(* the lock / flag / reachability invariant: every thread's validated facts hold while it holds the lock
   (tk), a locked node names its holder (own), unmarked nodes are reachable from the header, a node that is
   not fully linked has a creator about to set the flag, a marked node still reachable has a remover,
   distinct creators create distinct nodes *)
Theorem C04_lazyskip_inv2 : forall progs sched,
  LazyLock.Inv2 (LazySkip.run_sched (LazySkip.init progs) sched).
Proof. exact LazyLock.lazy_inv2. Qed.

(* mutual exclusion: a locked node is locked by the thread whose program counter holds it *)
Theorem C04_lazyskip_lock_holder : forall progs sched i t,
  let s := LazySkip.run_sched (LazySkip.init progs) sched in
  ProofsLazy.valid (LazySkip.hp s) i -> LazySkip.lock (LazySkip.get (LazySkip.hp s) i) = Some t ->
  exists th, nth_error (LazySkip.ths s) t = Some th /\ In i (LazyLock.held (LazySkip.at_pc th)).
Proof. exact LazyLock.lock_holder. Qed.

(* a lock is only released (or changed at all) by a step of its holder *)
Theorem C04_lazyskip_lock_release : forall progs sched t i t2,
  let s := LazySkip.run_sched (LazySkip.init progs) sched in
  ProofsLazy.valid (LazySkip.hp s) i -> LazySkip.lock (LazySkip.get (LazySkip.hp s) i) = Some t2 ->
  LazySkip.lock (LazySkip.get (LazySkip.hp (LazySkip.step s t)) i) <> Some t2 -> t = t2.
Proof. exact LazyLock.lock_release_by_holder. Qed.

(* no step writes the next pointer of an existing node without holding that node's lock; the node written
   is not marked *)
Theorem C04_lazyskip_next_under_lock : forall progs sched t i,
  let s := LazySkip.run_sched (LazySkip.init progs) sched in
  ProofsLazy.valid (LazySkip.hp s) i ->
  LazySkip.next (LazySkip.get (LazySkip.hp (LazySkip.step s t)) i) <> LazySkip.next (LazySkip.get (LazySkip.hp s) i) ->
  LazySkip.lock (LazySkip.get (LazySkip.hp s) i) = Some t /\
  LazySkip.marked (LazySkip.get (LazySkip.hp (LazySkip.step s t)) i) = false.
Proof. exact LazyLock.next_written_under_lock. Qed.

(* no deadlock (and no livelock of everybody): in every reachable state either every thread has finished its
   program, or some unfinished thread has a step that changes the state *)
Theorem C04_lazyskip_no_deadlock : forall progs sched,
  let s := LazySkip.run_sched (LazySkip.init progs) sched in
  Forall LazyProgress.finished (LazySkip.ths s) \/
  exists t th, nth_error (LazySkip.ths s) t = Some th /\ ~ LazyProgress.finished th /\ LazySkip.step s t <> s.
Proof. exact LazyProgress.lazy_no_deadlock. Qed.

(* ---- protocol model, where operations take effect (LazyPoints.v, LazyLinz.v) ---- *)

(* a successful Add takes effect at its fullyLinked step: its key is absent from the abstract set before the
   step and the set after the step is the old one plus the key *)
Theorem C04_lazyskip_add_effect : forall progs sched,
  let s := LazySkip.run_sched (LazySkip.init progs) sched in
  forall t th k pred nn, nth_error (LazySkip.ths s) t = Some th -> LazySkip.at_pc th = LazySkip.AFull k pred nn ->
  ~ In k (LazySkip.abs (LazySkip.hp s)) /\ In k (LazySkip.abs (LazySkip.hp (LazySkip.step s t))) /\
  forall y, In y (LazySkip.abs (LazySkip.hp (LazySkip.step s t))) <-> y = k \/ In y (LazySkip.abs (LazySkip.hp s)).
Proof. exact LazyPoints.add_takes_effect. Qed.

(* an Add that reports failure does so at a step at which its key is in the abstract set *)
Theorem C04_lazyskip_add_fail : forall progs sched,
  let s := LazySkip.run_sched (LazySkip.init progs) sched in
  forall t th k pred, nth_error (LazySkip.ths s) t = Some th -> LazySkip.at_pc th = LazySkip.AFind k pred ->
  snd (LazySkip.action (LazySkip.hp s) t (LazySkip.AFind k pred)) = LazySkip.Done false ->
  In k (LazySkip.abs (LazySkip.hp s)).
Proof. exact LazyPoints.add_fails_present. Qed.

(* a successful Remove takes effect at its marking step: the key is present before, and the set after the
   step is the old one minus the key *)
Theorem C04_lazyskip_remove_effect : forall progs sched,
  let s := LazySkip.run_sched (LazySkip.init progs) sched in
  forall t th k pred v, nth_error (LazySkip.ths s) t = Some th -> LazySkip.at_pc th = LazySkip.RMark k pred v ->
  LazySkip.marked (LazySkip.get (LazySkip.hp s) v) = false ->
  In k (LazySkip.abs (LazySkip.hp s)) /\ ~ In k (LazySkip.abs (LazySkip.hp (LazySkip.step s t))) /\
  forall y, In y (LazySkip.abs (LazySkip.hp (LazySkip.step s t))) <-> y <> k /\ In y (LazySkip.abs (LazySkip.hp s)).
Proof. exact LazyPoints.remove_takes_effect. Qed.

(* every completed operation of every execution (complete or not) has a linearization point strictly after its
   invocation step a and not after its response step b: either a moment m (the state before step m) at which the
   set specification gives the reported answer without changing state -- for an unsuccessful Remove / Contains
   this uses the hindsight argument: the key was absent at some moment inside the interval -- or, for a
   successful Add / Remove, its own fullyLinked / marking step m *)
Theorem C04_lazyskip_lin_points : forall progs sched e,
  In e (LazyHist.i_log (LazyHist.irun progs sched)) ->
  exists a b o r,
    LazyHist.e_op e = Build_op (N.of_nat a) (N.of_nat b) (LazyHist.sop_of o) (RBool r) /\ (a < b < length sched)%nat /\
    ((exists m, LazyHist.e_pt e = (2 * m)%nat /\ (a < m <= b)%nat /\
                LazyLinz.obsfact o r (LazySkip.hp (LazyTrace.st progs sched m))) \/
     (exists m t, LazyHist.e_pt e = (2 * m + 1)%nat /\ (a < m <= b)%nat /\ r = true /\
                  LazyLinz.linstep progs sched m t o)).
Proof. exact LazyLinThm.lazy_points. Qed.

(* ---- protocol model, linearizability (LazyLinThm.v) ---- *)

(* the recorded history of every complete execution (all threads ran their whole programs; any programs, any
   schedule) is linearizable with respect to the set specification, in the sense of Common/Hist.v -- the same
   definition the verified checker decides on the histories of the real code; the final specification state has
   the members of the final abstract set *)
Theorem C04_lazyskip_linearizable : forall progs sched,
  LazyHist.complete (LazySkip.run_sched (LazySkip.init progs) sched) = true ->
  linearizable fset sop mres fset_step [] (LazyHist.history progs sched) /\
  exists S', lin_to fset sop mres fset_step [] (LazyHist.history progs sched) S' /\
             forall x, In x S' <-> In x (LazySkip.abs (LazySkip.hp (LazySkip.run_sched (LazySkip.init progs) sched))).
Proof.
  exact (fun progs sched C => conj (LazyLinThm.lazy_linearizable progs sched C) (LazyLinThm.lazy_lin_to progs sched C)).
Qed.

(* exactly one of several racing Adds of the same key reports success: complete execution, no Remove of k *)
Theorem C04_lazyskip_one_add_wins : forall progs sched,
  LazyHist.complete (LazySkip.run_sched (LazySkip.init progs) sched) = true ->
  forall k, (forall o, In o (LazyHist.history progs sched) -> LazyRace.is_rem k o = false) ->
  existsb (LazyRace.is_add k) (LazyHist.history progs sched) = true ->
  length (filter (fun o => LazyRace.is_add k o && LazyRace.ok_ret o) (LazyHist.history progs sched)) = 1%nat.
Proof. exact LazyRace.race_adds. Qed.

(* exactly one of several racing Removes of the same key reports success: complete execution, the key is added
   by one Add a (the only Add of k), every Remove of k is invoked after a has responded *)
Theorem C04_lazyskip_one_remove_wins : forall progs sched,
  LazyHist.complete (LazySkip.run_sched (LazySkip.init progs) sched) = true ->
  forall k a, filter (LazyRace.is_add k) (LazyHist.history progs sched) = [a] ->
  (forall o, In o (LazyHist.history progs sched) -> LazyRace.is_rem k o = true -> (resp a < inv o)%N) ->
  existsb (LazyRace.is_rem k) (LazyHist.history progs sched) = true ->
  length (filter (fun o => LazyRace.is_rem k o && LazyRace.ok_ret o) (LazyHist.history progs sched)) = 1%nat /\
  LazyRace.ok_ret a = true.
Proof. exact LazyRace.race_removes. Qed.

(* non-vacuity: three threads racing on key 5 (adds, removes, a contains), round-robin: the execution is complete,
   its recorded history has 9 operations, is accepted by the verified checker, and two Adds of 5 overlap of which
   one fails *)
Example C04_lazyskip_history_nonvacuous :
  let progs := [[LazySkip.OAdd 5; LazySkip.ORemove 5; LazySkip.OAdd 7];
                [LazySkip.OAdd 5; LazySkip.OContains 5; LazySkip.OAdd 5];
                [LazySkip.ORemove 5; LazySkip.OAdd 3; LazySkip.ORemove 5]] in
  let sched := flat_map (fun _ => seq 0 3) (seq 0 80) in
  LazyHist.complete (LazySkip.run_sched (LazySkip.init progs) sched) = true /\
  length (LazyHist.history progs sched) = 9%nat /\
  set_lin_check [] (LazyHist.history progs sched) = true /\
  In (Build_op 0 18 (AddB 5 0) (RBool true))%N (LazyHist.history progs sched) /\
  In (Build_op 1 28 (AddB 5 0) (RBool false))%N (LazyHist.history progs sched).
Proof. vm_compute. intuition. Qed.

(* non-vacuity of the two racing theorems: their hypotheses hold on concrete complete executions (three racing
   Adds of 5; one Add of 5 completed before two racing Removes of 5), and exactly one operation wins *)
Example C04_lazyskip_race_nonvacuous :
  let p1 := [[LazySkip.OAdd 5]; [LazySkip.OAdd 5]; [LazySkip.OAdd 5]] in
  let s1 := flat_map (fun _ => seq 0 3) (seq 0 14) in
  let p2 := [[LazySkip.OAdd 5]; [LazySkip.ORemove 5]; [LazySkip.ORemove 5]] in
  let s2 := repeat 0%nat 8 ++ flat_map (fun _ => [1; 2]%nat) (seq 0 14) in
  let a := Build_op 0 6 (AddB 5 0) (RBool true) in
  (LazyHist.complete (LazySkip.run_sched (LazySkip.init p1) s1) = true /\
   forallb (fun o => negb (LazyRace.is_rem 5 o)) (LazyHist.history p1 s1) = true /\
   existsb (LazyRace.is_add 5) (LazyHist.history p1 s1) = true /\
   map ret (LazyHist.history p1 s1) = [RBool true; RBool false; RBool false]) /\
  (LazyHist.complete (LazySkip.run_sched (LazySkip.init p2) s2) = true /\
   filter (LazyRace.is_add 5) (LazyHist.history p2 s2) = [a] /\
   forallb (fun o => negb (LazyRace.is_rem 5 o) || (resp a <? inv o)%N) (LazyHist.history p2 s2) = true /\
   existsb (LazyRace.is_rem 5) (LazyHist.history p2 s2) = true /\
   map ret (LazyHist.history p2 s2) = [RBool true; RBool true; RBool false]).
Proof. vm_compute. intuition. Qed.

(* ---- protocol model with the value field (LazyMap.v): Store / Load / LoadAndDelete of skipmap ---- *)

(* mutual exclusion bookkeeping, for the repaired (rep = true) and the pre-repair (rep = false) Store *)
Theorem C04_lazymap_lock_owner : forall rep progs sched,
  let s := LazyMap.run rep progs sched in
  (forall i t, LazyMap.lock (LazyMap.get (LazyMap.hp s) i) = Some t ->
     exists th, nth_error (LazyMap.ths s) t = Some th /\ In i (ProofsLazyMap.held (LazyMap.at_pc th))) /\
  (forall t th i, nth_error (LazyMap.ths s) t = Some th -> In i (ProofsLazyMap.held (LazyMap.at_pc th)) ->
     LazyMap.lock (LazyMap.get (LazyMap.hp s) i) = Some t) /\
  (forall t t' i, LazyMap.lock (LazyMap.get (LazyMap.hp s) i) = Some t -> t' <> t ->
     LazyMap.lock (LazyMap.get (LazyMap.hp (LazyMap.step rep s t')) i) = Some t).
Proof. exact ProofsLazyMap.lazymap_lock_owner. Qed.

(* repaired code: the value of an existing node is written only by the holder of the node's lock, on a node
   that is fully linked and not marked; marked is only set by the holder of the lock *)
Theorem C04_lazymap_value_write : forall progs sched t n,
  let s := LazyMap.run true progs sched in
  let s' := LazyMap.step true s t in
  ProofsLazyMap.valid (LazyMap.hp s) n ->
  (LazyMap.value (LazyMap.get (LazyMap.hp s') n) <> LazyMap.value (LazyMap.get (LazyMap.hp s) n) ->
     LazyMap.lock (LazyMap.get (LazyMap.hp s) n) = Some t /\ LazyMap.marked (LazyMap.get (LazyMap.hp s) n) = false /\
     LazyMap.linked (LazyMap.get (LazyMap.hp s) n) = true) /\
  (LazyMap.marked (LazyMap.get (LazyMap.hp s') n) <> LazyMap.marked (LazyMap.get (LazyMap.hp s) n) ->
     LazyMap.lock (LazyMap.get (LazyMap.hp s) n) = Some t).
Proof. exact ProofsLazyMap.lazymap_value_write. Qed.

(* repaired code: once a node is marked its value never changes again *)
Theorem C04_lazymap_marked_frozen : forall progs sched sched' n,
  LazyMap.marked (LazyMap.get (LazyMap.hp (LazyMap.run true progs sched)) n) = true ->
  LazyMap.value (LazyMap.get (LazyMap.hp (LazyMap.run true progs (sched ++ sched'))) n) =
    LazyMap.value (LazyMap.get (LazyMap.hp (LazyMap.run true progs sched)) n) /\
  LazyMap.marked (LazyMap.get (LazyMap.hp (LazyMap.run true progs (sched ++ sched'))) n) = true.
Proof. exact ProofsLazyMap.lazymap_marked_frozen. Qed.

(* repaired code, no lost update (1): a LoadAndDelete that marked victim v at the end of sched1 and later reaches
   its final read returns the value v had when it was marked, i.e. the last value stored into the node *)
Theorem C04_lazymap_lad_returns_marked_value : forall progs sched1 sched2 t th1 th2 k pred v,
  let s1 := LazyMap.run true progs sched1 in
  let s2 := LazyMap.run true progs (sched1 ++ t :: sched2) in
  nth_error (LazyMap.ths s1) t = Some th1 -> LazyMap.at_pc th1 = LazyMap.RMark k pred v ->
  LazyMap.marked (LazyMap.get (LazyMap.hp s1) v) = false ->
  nth_error (LazyMap.ths s2) t = Some th2 -> LazyMap.at_pc th2 = LazyMap.RRead v ->
  LazyMap.pc_of (LazyMap.step true s2 t) t = LazyMap.Done (LazyMap.value (LazyMap.get (LazyMap.hp s1) v)) true.
Proof. exact ProofsLazyMap.lazymap_lad_returns_marked_value. Qed.

(* repaired code, no lost update (2): a Store takes effect inside its interval -- when it writes the value into
   an existing node it holds the node's lock and the node is fully linked and not marked, and right after the
   write (resp. after the fullyLinked step of a new node) the pair (k, v) is in the abstract map *)
Theorem C04_lazymap_store_visible : forall progs sched t th k v c,
  let s := LazyMap.run true progs sched in
  let h' := LazyMap.hp (LazyMap.step true s t) in
  nth_error (LazyMap.ths s) t = Some th ->
  LazyMap.at_pc th = LazyMap.SWrite k v c \/ (exists pred, LazyMap.at_pc th = LazyMap.SFull k v pred c) ->
  (LazyMap.at_pc th = LazyMap.SWrite k v c ->
     LazyMap.lock (LazyMap.get (LazyMap.hp s) c) = Some t /\ LazyMap.linked (LazyMap.get (LazyMap.hp s) c) = true /\
     LazyMap.marked (LazyMap.get (LazyMap.hp s) c) = false) /\
  LazyMap.key (LazyMap.get h' c) = k /\ LazyMap.value (LazyMap.get h' c) = v /\
  LazyMap.linked (LazyMap.get h' c) = true /\ LazyMap.marked (LazyMap.get h' c) = false /\
  In (k, v) (LazyMap.absmap h').
Proof. exact ProofsLazyMap.lazymap_store_visible. Qed.

(* the code BEFORE the repair (Store tests marked and writes the value without the node lock) loses updates:
   a step writes the value of a node that is already marked and unlocked ... *)
Theorem C04_lazymap_prerepair_refuted :
  exists progs sched t n, let s := LazyMap.run false progs sched in
    ProofsLazyMap.valid (LazyMap.hp s) n /\ LazyMap.marked (LazyMap.get (LazyMap.hp s) n) = true /\
    LazyMap.lock (LazyMap.get (LazyMap.hp s) n) = None /\
    LazyMap.value (LazyMap.get (LazyMap.hp (LazyMap.step false s t)) n) <> LazyMap.value (LazyMap.get (LazyMap.hp s) n).
Proof. exact ProofsLazyMap.lazymap_prerepair_refuted. Qed.

(* ... and the history of that complete execution (Store 1 10; Store 1 20 || LoadAndDelete 1 -> (10, true); then
   Load 1 -> absent) is rejected by the verified checker, while the repaired code on the same programs is accepted *)
Theorem C04_lazymap_prerepair_history_rejected :
  LazyMap.quiescent (LazyMap.run false ProofsLazyMap.ex_progs ProofsLazyMap.ex_sched0) = true /\
  map_lin_check [] (LazyMap.history false ProofsLazyMap.ex_progs ProofsLazyMap.ex_sched0) = false /\
  LazyMap.quiescent (LazyMap.run true ProofsLazyMap.ex_progs ProofsLazyMap.ex_sched1) = true /\
  map_lin_check [] (LazyMap.history true ProofsLazyMap.ex_progs ProofsLazyMap.ex_sched1) = true.
Proof.
  exact (conj (proj1 ProofsLazyMap.lazymap_prerepair_history_rejected)
        (conj (proj2 (proj2 ProofsLazyMap.lazymap_prerepair_history_rejected))
        (conj (proj1 ProofsLazyMap.lazymap_repaired_history_accepted)
              (proj2 (proj2 ProofsLazyMap.lazymap_repaired_history_accepted))))).
Qed.

(* LINEARIZABILITY OF THE VALUE MODEL (repaired code): the recorded history of every complete execution of
   Store / Load / LoadAndDelete / LoadOrStore / LoadOrStoreLazy / Delete programs (LazyMap.opk; LoadOrStore's found
   path reads marked and the value WITHOUT the node lock after waiting for fullyLinked, as the code does), any keys
   and values, any schedule, is linearizable with respect to the
   finite-map specification (the one the verified checker uses on the real histories): no lost update, no value
   returned that was never stored, a LoadAndDelete that wins returns the current value; the final specification
   state is the final abstract map {(key, value) | fullyLinked, not marked} *)
Theorem C04_lazymap_linearizable : forall progs sched,
  LazyMap.quiescent (LazyMap.run true progs sched) = true ->
  linearizable fmap mop mres fmap_step [] (LazyMap.history true progs sched) /\
  exists m', lin_to fmap mop mres fmap_step [] (LazyMap.history true progs sched) m' /\
             forall k v, In (k, v) m' <-> In (k, v) (LazyMap.absmap (LazyMap.hp (LazyMap.run true progs sched))).
Proof.
  exact (fun progs sched Q => conj (LzmLinThm.lazymap_linearizable progs sched Q) (LzmLinThm.lazymap_lin_to progs sched Q)).
Qed.

(* the lazy constructor (ghost counter of the model, incremented at the constructor step between the successful
   validation and the creation of the node) runs exactly once in a LoadOrStoreLazy that inserts and never in one
   that finds the key present *)
Theorem C04_lazymap_lazy_once : forall progs sched,
  LazyMap.quiescent (LazyMap.run true progs sched) = true ->
  forall o, In o (LazyMap.history true progs sched) -> forall k v h, call o = LoadOrStoreLazy k v h ->
  exists x loaded, ret o = RLazy x loaded (if loaded then 0 else 1)%nat.
Proof. exact LzmLinThm.lazymap_lazy_once. Qed.

(* non-vacuity for the extended operation set: two racing LoadOrStoreLazy of key 1 (one inserts, constructor ran
   once; the other fails validation, searches again and loads, constructor never ran), LoadOrStore, Delete, Load *)
Example C04_lazymap_ext_nonvacuous :
  LazyMap.quiescent (LazyMap.run true LzmLinThm.ex2_progs LzmLinThm.ex2_sched) = true /\
  map (fun o => (call o, ret o)) (LazyMap.history true LzmLinThm.ex2_progs LzmLinThm.ex2_sched) =
    [(LoadOrStoreLazy 1 20 0, RLazy 20 false 1); (LoadOrStoreLazy 1 10 0, RLazy 20 true 0);
     (LoadOrStore 1 7 0, RLoS 20 true); (LoadOrStore 2 5 0, RLoS 5 false);
     (Delete 1, RBool true); (Delete 1, RBool false); (Load 1, RGet 0 false); (Load 2, RGet 5 true)] /\
  map_lin_check [] (LazyMap.history true LzmLinThm.ex2_progs LzmLinThm.ex2_sched) = true.
Proof. vm_compute. auto. Qed.

Print Assumptions C04_seq_map.
Print Assumptions C04_seq_set.
Print Assumptions C04_seq_map_state.
Print Assumptions C04_seq_set_state.
Print Assumptions C04_len_after_clear.
Print Assumptions C04_lazy_once.
Print Assumptions C04_spec_map_laws.
Print Assumptions C04_lin_check_map.
Print Assumptions C04_lin_check_set.
Print Assumptions C04_lin_segments.
Print Assumptions C04_range_ok_b.
Print Assumptions C04_lazy_calls_b.
Print Assumptions C04_lazyskip_inv.
Print Assumptions C04_lazyskip_sorted.
Print Assumptions C04_lazyskip_abs_frame.
Print Assumptions C04_lazyskip_inv2.
Print Assumptions C04_lazyskip_lock_holder.
Print Assumptions C04_lazyskip_lock_release.
Print Assumptions C04_lazyskip_next_under_lock.
Print Assumptions C04_lazyskip_no_deadlock.
Print Assumptions C04_lazyskip_add_effect.
Print Assumptions C04_lazyskip_add_fail.
Print Assumptions C04_lazyskip_remove_effect.
Print Assumptions C04_lazyskip_lin_points.
Print Assumptions C04_lazyskip_linearizable.
Print Assumptions C04_lazyskip_one_add_wins.
Print Assumptions C04_lazyskip_one_remove_wins.
Print Assumptions C04_lazymap_lock_owner.
Print Assumptions C04_lazymap_value_write.
Print Assumptions C04_lazymap_marked_frozen.
Print Assumptions C04_lazymap_lad_returns_marked_value.
Print Assumptions C04_lazymap_store_visible.
Print Assumptions C04_lazymap_prerepair_refuted.
Print Assumptions C04_lazymap_prerepair_history_rejected.
Print Assumptions C04_lazymap_linearizable.
Print Assumptions C04_lazymap_lazy_once.
