(* C04 property theorems. Nothing but statements closed by [exact] and Print Assumptions. *)
From VF Require Import Common.Base Common.Hist C04.Spec C04.Model C04.Proofs C04.ProofsRange C04.Check C04.ProofsLin.
From VF Require C04.LazySkip C04.ProofsLazy.
Local Open Scope Z_scope.

(* single-threaded use matches the reference map / set exactly: for every operation list and every
   height oracle (heights >= 1, what randomLevel() guarantees) the outputs of the sequential skip-list
   model equal the outputs of the finite map / set *)
Theorem C04_seq_map : forall ops, mheights_pos ops ->
  snd (run skipmap_step sm0 ops) = snd (run fmap_step [] ops).
Proof. exact (fun ops H => proj2 (seq_map_refines ops H)). Qed.

Theorem C04_seq_set : forall ops, sheights_pos ops ->
  snd (run skipset_step sm0 ops) = snd (run fset_step [] ops).
Proof. exact (fun ops H => proj2 (seq_set_refines ops H)). Qed.

(* reachable states: the lane-0 chain is the map, the cached length is its size, keys strictly ascend
   (so Range/Keys visit in strictly ascending order), every node height is within highestLevel *)
Theorem C04_seq_map_state : forall ops, mheights_pos ops ->
  let s := fst (run skipmap_step sm0 ops) in
  let m := fst (run fmap_step [] ops) in
  pairs_of (nodes s) = m /\ len s = Z.of_nat (length m) /\ asc (map fst m) /\ hts_ok (hl s) (nodes s).
Proof. exact seq_map_state. Qed.

Theorem C04_seq_set_state : forall ops, sheights_pos ops ->
  let s := fst (run skipset_step sm0 ops) in
  let f := fst (run fset_step [] ops) in
  map nk (nodes s) = f /\ len s = Z.of_nat (length f) /\ asc f.
Proof. exact seq_set_state. Qed.

(* Len / Size / Empty after Clear (the repaired code; D8 on the original) *)
Theorem C04_len_after_clear : forall s,
  snd (skipmap_step (fst (skipmap_step s Clear)) Len) = RInt 0 /\
  snd (skipset_step (fst (skipset_step s SClear)) SLen) = RInt 0 /\
  snd (skipmap_step (fst (skipmap_step s Clear)) Empty) = RBool true.
Proof. exact len_after_clear. Qed.

(* the lazy constructor runs exactly once per successful insert and never otherwise *)
Theorem C04_lazy_once : forall ops k v h, mheights_pos ops ->
  let s := fst (run skipmap_step sm0 ops) in
  exists a loaded calls,
    snd (skipmap_step s (LoadOrStoreLazy k v h)) = RLazy a loaded calls /\
    (loaded = false <-> fm_get k (pairs_of (nodes s)) = None) /\
    calls = (if loaded then 0 else 1)%nat /\
    (loaded = false -> a = v) /\ (loaded = true -> fm_get k (pairs_of (nodes s)) = Some a).
Proof. exact lazy_once. Qed.

(* the Spec is a finite map: the usual laws of get over put / del *)
Theorem C04_spec_map_laws : forall k k2 v m,
  fm_get k (fm_put k v m) = Some v /\ (k2 <> k -> fm_get k2 (fm_put k v m) = fm_get k2 m) /\
  fm_get k (fm_del k m) = None /\ (k2 <> k -> fm_get k2 (fm_del k m) = fm_get k2 m).
Proof.
  exact (fun k k2 v m => conj (fm_get_put_same k v m) (conj (fm_get_put_other k k2 v m)
                           (conj (fm_get_del_same k m) (fm_get_del_other k k2 m)))).
Qed.

(* the history checker that judges every recorded concurrent history is sound and complete *)
Theorem C04_lin_check_map : forall s h,
  map_lin_check s h = true <-> linearizable fmap mop mres fmap_step s h.
Proof. exact map_lin_check_correct. Qed.

Theorem C04_lin_check_set : forall s h,
  set_lin_check s h = true <-> linearizable fset sop mres fset_step s h.
Proof. exact set_lin_check_correct. Qed.

(* cutting a history at a quiescent point and threading the state is exact (justifies judging a long
   run round by round; the harness starts every round on a fresh structure, i.e. from the empty state) *)
Theorem C04_lin_segments : forall (s : fmap) h h1 h2,
  quiescent_cut mop mres h h1 h2 ->
  (linearizable fmap mop mres fmap_step s h <->
   exists s', lin_to fmap mop mres fmap_step s h1 s' /\ linearizable fmap mop mres fmap_step s' h2).
Proof. exact (lin_segments fmap mop mres fmap_step). Qed.

Theorem C04_range_ok_b : forall evs r, range_ok_b evs r = true <-> RangeOK evs r.
Proof. exact range_ok_b_ok. Qed.

(* non-vacuity: a trace that inserts (with different heights), overwrites, deletes, clears;
   a linearizable history with two racing inserts of which exactly one wins, and the same history
   with both reporting success, which the checker rejects *)
Example C04_nonvacuous :
  let ops := [Store 5 50 2%nat; LoadOrStoreLazy 3 30 7%nat; LoadOrStore 5 51 1%nat; Store 9 90 1%nat;
              Delete 3; Range 0; Len; Clear; Len] in
  mheights_pos ops /\
  snd (run skipmap_step sm0 ops) =
    [RUnit; RLazy 30 false 1; RLoS 50 true; RUnit; RBool true; RPairs [(5, 50); (9, 90)]; RInt 2; RUnit; RInt 0] /\
  let o a b c r := Build_op a b c r : op mop mres in
  map_lin_check [] [o 1 4 (LoadOrStore 1 10 0%nat) (RLoS 10 false); o 2 3 (LoadOrStore 1 20 0%nat) (RLoS 10 true);
                    o 5 6 Len (RInt 1)]%N = true /\
  map_lin_check [] [o 1 4 (LoadOrStore 1 10 0%nat) (RLoS 10 false); o 2 3 (LoadOrStore 1 20 0%nat) (RLoS 20 false);
                    o 5 6 Len (RInt 1)]%N = false.
Proof.
  cbv zeta. split; [|split; [vm_compute; reflexivity|split; vm_compute; reflexivity]].
  intros o h Hin Hh. simpl in Hin.
  repeat (destruct Hin as [<-|Hin]; [simpl in Hh; inversion Hh; lia || discriminate|]). destruct Hin.
Qed.

(* ---- protocol model (LazySkip.v): the optimistic bottom-lane algorithm, all programs, all schedules ---- *)

(* inductive invariant: the header exists; every next pointer leads to a node with a strictly larger key;
   every thread's program counter only refers to valid nodes with pred.key < k (< succ.key / = victim.key) *)
Theorem C04_lazyskip_inv : forall progs sched,
  ProofsLazy.LInv (LazySkip.run_sched (LazySkip.init progs) sched).
Proof. exact ProofsLazy.lazy_inv. Qed.

(* the chain reachable from the header is strictly ascending, hence holds at most one node per key
   (in particular at most one unmarked node per key) *)
Theorem C04_lazyskip_sorted : forall progs sched fuel,
  let h := LazySkip.hp (LazySkip.run_sched (LazySkip.init progs) sched) in
  asc (LazySkip.chain fuel h (LazySkip.next (LazySkip.get h 0))) /\
  NoDup (LazySkip.chain fuel h (LazySkip.next (LazySkip.get h 0))).
Proof.
  exact (fun progs sched fuel => conj (ProofsLazy.lazy_chain_sorted progs sched fuel)
                                      (ProofsLazy.lazy_chain_nodup progs sched fuel)).
Qed.

(* the abstract set {key x | fullyLinked x, not marked x} changes only when a thread executes the
   fullyLinked := true step of an Add or the marked := true step of a Remove on an unmarked victim *)
Theorem C04_lazyskip_abs_frame : forall progs sched t,
  let s := LazySkip.run_sched (LazySkip.init progs) sched in
  LazySkip.abs (LazySkip.hp (LazySkip.step s t)) <> LazySkip.abs (LazySkip.hp s) ->
  exists th, nth_error (LazySkip.ths s) t = Some th /\
    ((exists k pred nn, LazySkip.at_pc th = LazySkip.AFull k pred nn) \/
     (exists k pred v, LazySkip.at_pc th = LazySkip.RMark k pred v /\
                       LazySkip.marked (LazySkip.get (LazySkip.hp s) v) = false)).
Proof. exact (fun progs sched t => ProofsLazy.lazy_abs_frame _ t (ProofsLazy.lazy_inv progs sched)). Qed.

(* non-vacuity of the protocol model: three threads, round-robin; all operations complete, the chain is
   3 -> 5 -> 7 (the first node with key 5 was removed and a new one inserted) *)
Example C04_lazyskip_nonvacuous :
  let progs := [[LazySkip.OAdd 5; LazySkip.ORemove 5; LazySkip.OAdd 7];
                [LazySkip.OAdd 3; LazySkip.OContains 5; LazySkip.OAdd 5];
                [LazySkip.ORemove 3; LazySkip.OAdd 3]] in
  let s := LazySkip.run_sched (LazySkip.init progs) (flat_map (fun _ => seq 0 3) (seq 0 60)) in
  map LazySkip.at_pc (LazySkip.ths s) = [LazySkip.Idle; LazySkip.Idle; LazySkip.Idle] /\
  LazySkip.chain 10 (LazySkip.hp s) (LazySkip.next (LazySkip.get (LazySkip.hp s) 0)) = [3; 5; 7] /\
  length (LazySkip.hp s) = 5%nat.
Proof. vm_compute. auto. Qed.

Print Assumptions C04_seq_map.
Print Assumptions C04_seq_set.
Print Assumptions C04_seq_map_state.
Print Assumptions C04_seq_set_state.
Print Assumptions C04_len_after_clear.
Print Assumptions C04_lazy_once.
Print Assumptions C04_spec_map_laws.
Print Assumptions C04_lin_check_map.
Print Assumptions C04_lin_check_set.
Print Assumptions C04_lin_segments.
Print Assumptions C04_range_ok_b.
Print Assumptions C04_lazyskip_inv.
Print Assumptions C04_lazyskip_sorted.
Print Assumptions C04_lazyskip_abs_frame.
