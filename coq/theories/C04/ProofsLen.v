From Coq Require Import List ZArith Lia Bool.
From VF Require Import C04.LenCounter.
From VF Require C04.Check.
Local Open Scope Z_scope.

Lemma len_lag_code_ok : forall es ol ok,
  (Check.len_lag_code es ol ok = 0%nat -> len (run es) = ol /\ present (run es) = ok) /\
  (Check.len_lag_code es ol ok = 2%nat -> quiescent (run es) /\ ol <> ok).
Proof.
  intros es ol ok. unfold Check.len_lag_code, quiescent.
  destruct (Z.eqb_spec (pa (run es)) 0) as [Ha|Ha];
  destruct (Z.eqb_spec (pr (run es)) 0) as [Hr|Hr];
  destruct (Z.eqb_spec ol ok) as [Ho|Ho];
  destruct (Z.eqb_spec (len (run es)) ol) as [Hl|Hl];
  destruct (Z.eqb_spec (present (run es)) ok) as [Hp|Hp]; simpl; split; intro H; try discriminate; auto.
Qed.

(* the premises are satisfiable by non-trivial runs: a quiescent state holding keys, reached through both windows *)
Example quiescent_somewhere :
  let es := (SPublish :: SPublish :: SCount :: SRemove :: SPublish :: SDiscount :: SCount :: SCount :: nil) in
  quiescent (run es) /\ present (run es) = 2 /\ len (run es) = 2.
Proof. vm_compute. repeat split; reflexivity. Qed.
