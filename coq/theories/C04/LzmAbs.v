(* C04 protocol model WITH VALUES (LazyMap.v, repaired code): the abstract map
     absmap h = {(key n, value n) | n fully linked and not marked}
   is a partial function (at most one live node per key), it changes only at the three linearization steps
   (SFull / OFull: the fullyLinked step of a Store / LoadOrStore / LoadOrStoreLazy that linked a new node, SWrite: the value write of a Store that found
   its key, RMark on an unmarked victim: the marking step of a LoadAndDelete / Delete), and what these steps do to it. *)
From VF Require Import Common.Base C04.LazyMap C04.ProofsLazyMap C04.LzmReach C04.LzmLock.
Local Open Scope Z_scope.

Lemma in_tl_iff (h : heap) n : In n (tl h) <-> exists x, (1 <= x)%nat /\ valid h x /\ get h x = n.
Proof.
  destruct h as [|a h]; simpl.
  - split; [tauto|]. intros (x & _ & V & _). unfold valid in V. simpl in V. lia.
  - split.
    + intros Hin. apply In_nth with (d := dflt) in Hin as (i & Li & E).
      exists (Datatypes.S i). split; [lia|split; [unfold valid; simpl; lia|exact E]].
    + intros (x & P & V & E). destruct x as [|x]; [lia|]. unfold valid in V. simpl in V.
      unfold get in E. simpl in E. rewrite <- E. apply nth_In. lia.
Qed.

Lemma absmap_in h k v : In (k, v) (absmap h) <->
  exists x, (1 <= x)%nat /\ valid h x /\ live (get h x) = true /\ ky h x = k /\ vl h x = v.
Proof.
  unfold absmap. rewrite in_map_iff. split.
  - intros (n & E & Hin). apply filter_In in Hin as [Hin L]. apply in_tl_iff in Hin as (x & P & V & <-).
    unfold kv in E. inversion E. eauto 8.
  - intros (x & P & V & L & E1 & E2). exists (get h x). split; [unfold kv; congruence|]. apply filter_In. split; [|exact L].
    apply in_tl_iff. eauto.
Qed.

Definition absentk (k : Z) (h : heap) : Prop := forall v, ~ In (k, v) (absmap h).

Lemma live_flags h x : live (get h x) = true <-> lkd h x = true /\ mkd h x = false.
Proof. unfold live. rewrite andb_true_iff, negb_true_iff. tauto. Qed.

Lemma live_false h x : live (get h x) = false <-> lkd h x = false \/ mkd h x = true.
Proof. unfold live. rewrite andb_false_iff, negb_false_iff. tauto. Qed.

(* ---------- the abstract map does not see locks, next pointers and nodes that are not live ---------- *)
Definition nsig (n : nd) : Z * Z * bool := (key n, value n, live n).

Lemma abs_sig_list a b : map nsig a = map nsig b -> map kv (filter live a) = map kv (filter live b).
Proof.
  revert b. induction a as [|x a IH]; intros [|y b] E; simpl in *; try discriminate; [reflexivity|].
  inversion E as [[E1 E2 E3 E4]]. rewrite E3. destruct (live y); simpl; [f_equal; [unfold kv; congruence|]|]; now apply IH.
Qed.

Lemma abs_sig h h' : map nsig h = map nsig h' -> absmap h = absmap h'.
Proof.
  intros E. unfold absmap. apply abs_sig_list. destruct h, h'; simpl in *; try discriminate; [reflexivity|].
  now inversion E.
Qed.

Lemma map_upd {A B} (f : A -> B) l i x : map f (upd l i x) = upd (map f l) i (f x).
Proof. revert i. induction l as [|a l IH]; intros [|i]; simpl; auto. now rewrite IH. Qed.

Lemma upd_nth_same {A} (l : list A) i d : upd l i (nth i l d) = l.
Proof. revert i. induction l as [|a l IH]; intros [|i]; simpl; auto. now rewrite IH. Qed.

Lemma abs_setn h i f : (forall n, nsig (f n) = nsig n) -> absmap (setn h i f) = absmap h.
Proof.
  intros Hf. apply abs_sig. unfold setn. destruct (nth_error h i) as [n|] eqn:E; [|reflexivity].
  rewrite map_upd, Hf. destruct (nth_error_get _ _ _ E) as [-> V].
  assert (Es : nsig (get h i) = nth i (map nsig h) (nsig (get h (length h)))).
  { unfold get at 1. rewrite <- (map_nth nsig). apply nth_indep. now rewrite map_length. }
  rewrite Es. apply upd_nth_same.
Qed.

Lemma abs_app h n : (1 <= length h)%nat -> live n = false -> absmap (h ++ [n]) = absmap h.
Proof.
  intros L E. unfold absmap. destruct h as [|x h]; [simpl in L; lia|]. simpl.
  rewrite filter_app. simpl. rewrite E. now rewrite app_nil_r.
Qed.

(* the program counters whose step is a linearization step *)
Definition lin_pc (h : heap) (p : pc) : bool :=
  match p with
  | SFull _ _ _ _ | SWrite _ _ _ | SWrite0 _ _ _ | OFull _ _ _ _ _ _ => true
  | RMark _ _ v => negb (marked (get h v))
  | _ => false
  end.

Lemma action_abs rep h t p : (1 <= length h)%nat -> lin_pc h p = false -> absmap (fst (action rep h t p)) = absmap h.
Proof.
  intros L N.
  assert (LOCK : forall i x, absmap (setn h i (set_lock x)) = absmap h) by (intros; now apply abs_setn).
  destruct p; try discriminate N; cbn [action]; split_action; try reflexivity; auto.
  - (* SLink *) rewrite abs_setn by reflexivity. now apply abs_app.
  - (* RMark, unmarked *) cbn [lin_pc] in N. match goal with H : marked _ = false |- _ => rewrite H in N end. discriminate.
  - (* RUnlink *) now apply abs_setn.
  - (* OLink *) rewrite abs_setn by reflexivity. now apply abs_app.
Qed.

Lemma lin_pc_busy h p : lin_pc h p = true -> resting p = false.
Proof. destruct p; simpl; congruence. Qed.

Lemma step_abs_frame s t : Inv s -> lin_pc (hp s) (pc_of s t) = false -> absmap (hp (step true s t)) = absmap (hp s).
Proof.
  intros [L _ _ _] N. unfold pc_of in N. unfold step. destruct (nth_error (ths s) t) as [th|] eqn:E; [|reflexivity].
  cbn [hp]. unfold thr_step. destruct (resting (at_pc th)).
  - destruct (todo th); reflexivity.
  - cbn [fst]. now apply action_abs.
Qed.

(* ---------- one state ---------- *)
Section State.
Variable s : state.
Hypothesis I1 : Inv s.
Hypothesis IR : InvR s.
Hypothesis I3 : Inv3 s.

Lemma live_reach x : valid (hp s) x -> live (get (hp s) x) = true -> reach (hp s) 0 x.
Proof. intros V L. apply live_flags in L as [_ L]. now apply (i3_r1 _ I3 x V). Qed.

Lemma key_unique x y : (1 <= x)%nat -> (1 <= y)%nat -> reach (hp s) 0 x -> reach (hp s) 0 y ->
  ky (hp s) x = ky (hp s) y -> x = y.
Proof. intros. apply (reach_key_unique (hp s)); auto. exact (inv_ord _ I1). Qed.

Lemma absmap_fun k v v' : In (k, v) (absmap (hp s)) -> In (k, v') (absmap (hp s)) -> v = v'.
Proof.
  intros A B. apply absmap_in in A as (x & Px & Vx & Lx & Kx & <-). apply absmap_in in B as (y & Py & Vy & Ly & Ky & <-).
  assert (x = y) by (apply key_unique; auto using live_reach; congruence). now subst.
Qed.

(* the only reachable node with key k is not live: k is absent *)
Lemma absent_unique k v : (1 <= v)%nat -> reach (hp s) 0 v -> ky (hp s) v = k -> live (get (hp s) v) = false ->
  absentk k (hp s).
Proof.
  intros Pv Rv Kv Lv x Hin. apply absmap_in in Hin as (y & Py & Vy & Ly & Ky & _).
  assert (y = v) by (apply key_unique; auto using live_reach; congruence). subst y. congruence.
Qed.

Lemma absent_gap k p c : reach (hp s) 0 p -> (p <> 0%nat -> ky (hp s) p < k) -> nx (hp s) p = c ->
  match c with Some m => k < ky (hp s) m | None => True end -> absentk k (hp s).
Proof.
  intros Rp Kp E Kc x Hin. apply absmap_in in Hin as (y & Py & Vy & Ly & Ky & _).
  exact (reach_gap (hp s) p c k y (inv_ord _ I1) Rp Kp E Kc Py (live_reach y Vy Ly) Ky).
Qed.

Lemma present_live k c : (1 <= c)%nat -> valid (hp s) c -> live (get (hp s) c) = true -> ky (hp s) c = k ->
  In (k, vl (hp s) c) (absmap (hp s)).
Proof. intros P V L K. apply absmap_in. eauto 8. Qed.

(* the fullyLinked step of a Store / LoadOrStore / LoadOrStoreLazy that linked a new node *)
Lemma full_effect_core t th k v pred nn : nth_error (ths s) t = Some th ->
  at_pc th = SFull k v pred nn \/ (exists lz n, at_pc th = OFull k v lz n pred nn) ->
  absentk k (hp s) /\
  forall k' v', In (k', v') (absmap (hp (step true s t))) <-> (k' = k /\ v' = v) \/ (k' <> k /\ In (k', v') (absmap (hp s))).
Proof.
  intros E Ep. destruct (inv_pcs _ I1 t th E) as [P W]. pose proof (invr_flags _ IR t th E) as F.
  assert (PF : (valid (hp s) pred /\ victim_ok (hp s) k nn) /\
               (value (get (hp s) nn) = v /\ marked (get (hp s) nn) = false /\ linked (get (hp s) nn) = false) /\
               hp (step true s t) = setn (hp s) nn set_linked).
  { destruct Ep as [Ep|(lz & n & Ep)]; rewrite Ep in P, F; cbn [pc_ok pc_flags] in P, F; (split; [exact P|split; [exact F|]]);
      (destruct (step_at true s t th E) as [X _]; [now rewrite Ep|]); rewrite X, Ep; reflexivity. }
  clear P F Ep. destruct PF as (P & F & EH).
  destruct P as (Vp & Pn & Vn & Kn). destruct F as (Fv & Fm & Fl).
  assert (Rn : reach (hp s) 0 nn) by (apply (i3_r1 _ I3 nn Vn Fm)).
  assert (AB : absentk k (hp s)).
  { apply (absent_unique k nn Pn Rn Kn). apply live_false. now left. }
  split; [exact AB|].
  rewrite EH. intros k' v'. rewrite !absmap_in. split.
  - intros (x & Px & Vx & Lx & Kx & Xv). apply valid_setn in Vx.
    rewrite (fld_setn key) in Kx by reflexivity. rewrite (fld_setn value) in Xv by reflexivity.
    destruct (Nat.eq_dec x nn) as [->|N].
    + left. split; congruence.
    + right. rewrite get_setn_other in Lx by exact N.
      split; [|exists x; auto 8]. intros ->. apply (AB v'). apply absmap_in. eauto 8.
  - intros [[-> ->]|(Nk & x & Px & Vx & Lx & Kx & Xv)].
    + exists nn. split; [exact Pn|split; [now apply valid_setn|]].
      rewrite (fld_setn key), (fld_setn value) by reflexivity. split; [|auto].
      rewrite get_setn_same by exact Vn. unfold live. simpl. now rewrite Fm.
    + exists x. split; [exact Px|split; [now apply valid_setn|]].
      rewrite (fld_setn key), (fld_setn value) by reflexivity. split; [|auto].
      destruct (Nat.eq_dec x nn) as [->|N]; [congruence|]. now rewrite get_setn_other.
Qed.

Lemma full_effect t th k v pred nn : nth_error (ths s) t = Some th -> at_pc th = SFull k v pred nn ->
  absentk k (hp s) /\
  forall k' v', In (k', v') (absmap (hp (step true s t))) <-> (k' = k /\ v' = v) \/ (k' <> k /\ In (k', v') (absmap (hp s))).
Proof. intros E Ep. apply (full_effect_core t th k v pred nn E). now left. Qed.

Lemma ofull_effect t th k v lz n pred nn : nth_error (ths s) t = Some th -> at_pc th = OFull k v lz n pred nn ->
  absentk k (hp s) /\
  forall k' v', In (k', v') (absmap (hp (step true s t))) <-> (k' = k /\ v' = v) \/ (k' <> k /\ In (k', v') (absmap (hp s))).
Proof. intros E Ep. apply (full_effect_core t th k v pred nn E). right. eauto. Qed.

(* the writing step of a Store that found its key *)
Lemma write_effect t th k v c : nth_error (ths s) t = Some th -> at_pc th = SWrite k v c ->
  forall k' v', In (k', v') (absmap (hp (step true s t))) <-> (k' = k /\ v' = v) \/ (k' <> k /\ In (k', v') (absmap (hp s))).
Proof.
  intros E Ep. destruct (inv_pcs _ I1 t th E) as [P W]. pose proof (invr_flags _ IR t th E) as F.
  rewrite Ep in P, F. cbn [pc_ok pc_flags] in P, F. destruct P as (Pc & Vc & Kc). destruct F as (Fm & Fl).
  assert (Lc : live (get (hp s) c) = true) by (apply live_flags; auto).
  assert (EH : hp (step true s t) = setn (hp s) c (set_value v)).
  { destruct (step_at true s t th E) as [X _]; [now rewrite Ep|]. rewrite X, Ep. reflexivity. }
  assert (LV : forall x, live (get (setn (hp s) c (set_value v)) x) = live (get (hp s) x)).
  { intros x. now apply (fld_setn live). }
  rewrite EH. intros k' v'. rewrite !absmap_in. split.
  - intros (x & Px & Vx & Lx & Kx & Xv). apply valid_setn in Vx. rewrite LV in Lx.
    rewrite (fld_setn key) in Kx by reflexivity.
    destruct (Nat.eq_dec x c) as [->|N].
    + left. rewrite get_setn_same in Xv by exact Vc. simpl in Xv. split; congruence.
    + right. rewrite get_setn_other in Xv by exact N. split; [|exists x; auto 8].
      intros ->. apply N. apply key_unique; auto using live_reach. congruence.
  - intros [[-> ->]|(Nk & x & Px & Vx & Lx & Kx & Xv)].
    + exists c. split; [exact Pc|split; [now apply valid_setn|]]. rewrite LV, (fld_setn key) by reflexivity.
      split; [exact Lc|split; [exact Kc|]]. now rewrite get_setn_same.
    + exists x. split; [exact Px|split; [now apply valid_setn|]]. rewrite LV, (fld_setn key) by reflexivity.
      split; [exact Lx|split; [exact Kx|]]. destruct (Nat.eq_dec x c) as [->|N]; [congruence|]. now rewrite get_setn_other.
Qed.

(* the marking step of a LoadAndDelete *)
Lemma mark_effect t th k pred v : nth_error (ths s) t = Some th -> at_pc th = RMark k pred v -> mkd (hp s) v = false ->
  In (k, vl (hp s) v) (absmap (hp s)) /\
  mkd (hp (step true s t)) v = true /\ vl (hp (step true s t)) v = vl (hp s) v /\
  forall k' v', In (k', v') (absmap (hp (step true s t))) <-> k' <> k /\ In (k', v') (absmap (hp s)).
Proof.
  intros E Ep Mv. destruct (inv_pcs _ I1 t th E) as [P W]. pose proof (invr_flags _ IR t th E) as F.
  rewrite Ep in P, F. cbn [pc_ok pc_flags] in P, F. destruct P as (_ & Pv & Vv & Kv).
  assert (Lv : live (get (hp s) v) = true) by (apply live_flags; auto).
  assert (EH : hp (step true s t) = setn (hp s) v set_marked).
  { destruct (step_at true s t th E) as [X _]; [now rewrite Ep|]. rewrite X, Ep. cbn [action]. rewrite Mv. reflexivity. }
  split; [now apply present_live|]. rewrite EH.
  split; [now rewrite get_setn_same|]. split; [now apply (fld_setn value)|].
  intros k' v'. rewrite !absmap_in. split.
  - intros (x & Px & Vx & Lx & Kx & Xv). apply valid_setn in Vx.
    rewrite (fld_setn key) in Kx by reflexivity. rewrite (fld_setn value) in Xv by reflexivity.
    destruct (Nat.eq_dec x v) as [->|N].
    + rewrite get_setn_same in Lx by exact Vv. unfold live in Lx. simpl in Lx. rewrite andb_false_r in Lx. discriminate.
    + rewrite get_setn_other in Lx by exact N. split; [|exists x; auto 8].
      intros ->. apply N. apply key_unique; auto using live_reach. congruence.
  - intros (Nk & x & Px & Vx & Lx & Kx & Xv). exists x. split; [exact Px|split; [now apply valid_setn|]].
    rewrite (fld_setn key), (fld_setn value) by reflexivity. split; [|auto].
    destruct (Nat.eq_dec x v) as [->|N]; [congruence|]. now rewrite get_setn_other.
Qed.
End State.
