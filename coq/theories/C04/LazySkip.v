(* C04 (stretch): executable small-step model of the optimistic ("lazy") algorithm that skipmap/skipset run on
   the BOTTOM lane, for any number of threads and any schedule:
     Add      find (unsynchronised reads of next) ; lock pred ; validate (!pred.marked, !succ.marked,
              pred.next == succ) ; link (nn.next := succ ; pred.next := nn) ; fullyLinked := true ; unlock
     Remove   find ; check fullyLinked && !marked ; lock victim ; marked := true (or give up if already marked) ;
              lock pred ; validate (!pred.marked, pred.next == victim) ; unlink ; unlock both
     Contains find ; read the flags once
   One [step s t] executes the next atomic action of thread t (a lock acquisition that is not possible
   leaves the state unchanged). Theorems, for ALL programs and ALL schedules:
     - every next pointer goes to a node with a strictly larger key (so the chain reachable from the header
       is strictly sorted and holds at most one node per key);
     - the abstract set {key x | fullyLinked x /\ ~ marked x} changes only at the fullyLinked := true step of
       an Add and at the marked := true step of a Remove.
   Upper lanes, the value field and the length counter are not part of this model. *)
From VF Require Import Common.Base C04.Proofs.
Local Open Scope Z_scope.

Record nd := { key : Z; next : option nat; marked : bool; linked : bool; lock : option nat }.
Definition heap := list nd.          (* index 0 is the header (its key is never read) *)

Inductive opk := OAdd (k : Z) | ORemove (k : Z) | OContains (k : Z).

Inductive pc :=
| Idle
| Done (res : bool)
(* Add *)
| AFind (k : Z) (pred : nat)
| ALock (k : Z) (pred : nat) (succ : option nat)
| AValid (k : Z) (pred : nat) (succ : option nat)
| ALink (k : Z) (pred : nat) (succ : option nat)
| AFull (k : Z) (pred nn : nat)
| AUnlock (pred : nat) (res : option bool) (k : Z)      (* res = None: validation failed, search again *)
(* Remove; mk = the victim this operation has already marked *)
| RFind (k : Z) (pred : nat) (mk : option nat)
| RCheck (k : Z) (pred v : nat)
| RLockV (k : Z) (pred v : nat)
| RMark (k : Z) (pred v : nat)
| RLockP (k : Z) (pred v : nat)
| RValid (k : Z) (pred v : nat)
| RUnlink (k : Z) (pred v : nat)
| RUnlockV (k : Z) (pred v : nat) (ok : bool)          (* ok = false: validation failed, search again *)
| RUnlockP (k : Z) (pred v : nat) (ok : bool)
| RGiveUp (v : nat)                                     (* victim was already marked: unlock it, return false *)
(* Contains *)
| CFind (k : Z) (pred : nat).

Record thr := { todo : list opk; at_pc : pc }.
Record state := { hp : heap; ths : list thr }.

Definition setn (h : heap) (i : nat) (f : nd -> nd) : heap :=
  match nth_error h i with Some n => upd h i (f n) | None => h end.

Definition set_next x (n : nd) := {| key := key n; next := x; marked := marked n; linked := linked n; lock := lock n |}.
Definition set_marked (n : nd) := {| key := key n; next := next n; marked := true; linked := linked n; lock := lock n |}.
Definition set_linked (n : nd) := {| key := key n; next := next n; marked := marked n; linked := true; lock := lock n |}.
Definition set_lock x (n : nd) := {| key := key n; next := next n; marked := marked n; linked := linked n; lock := x |}.

Definition get (h : heap) (i : nat) : nd :=
  nth i h {| key := 0; next := None; marked := false; linked := false; lock := None |}.

Definition acquire (h : heap) (t i : nat) : option heap :=
  match lock (get h i) with None => Some (setn h i (set_lock (Some t))) | Some _ => None end.

Definition opt_nat_eqb (a b : option nat) : bool :=
  match a, b with Some x, Some y => Nat.eqb x y | None, None => true | _, _ => false end.

(* one atomic action of thread t at program counter p: new heap and new program counter *)
Definition action (h : heap) (t : nat) (p : pc) : heap * pc :=
  match p with
  | Idle | Done _ => (h, p)
  | AFind k pred =>
      match next (get h pred) with
      | None => (h, ALock k pred None)
      | Some c =>
          let kc := key (get h c) in
          if kc <? k then (h, AFind k c)
          else if kc =? k then
                 if marked (get h c) then (h, AFind k 0)           (* being removed: search again *)
                 else if linked (get h c) then (h, Done false)     (* present *)
                 else (h, p)                                        (* wait until it is fully linked *)
          else (h, ALock k pred (Some c))
      end
  | ALock k pred succ =>
      match acquire h t pred with Some h' => (h', AValid k pred succ) | None => (h, p) end
  | AValid k pred succ =>
      let ok := negb (marked (get h pred))
                && match succ with Some c => negb (marked (get h c)) | None => true end
                && opt_nat_eqb (next (get h pred)) succ in
      if ok then (h, ALink k pred succ) else (h, AUnlock pred None k)
  | ALink k pred succ =>
      let nn := length h in
      let h1 := h ++ [{| key := k; next := succ; marked := false; linked := false; lock := None |}] in
      (setn h1 pred (set_next (Some nn)), AFull k pred nn)
  | AFull k pred nn => (setn h nn set_linked, AUnlock pred (Some true) k)
  | AUnlock pred res k =>
      (setn h pred (set_lock None), match res with Some b => Done b | None => AFind k 0 end)
  | RFind k pred mk =>
      let miss := match mk with Some v => (h, RFind k 0 mk) | None => (h, Done false) end in
      match next (get h pred) with
      | None => miss
      | Some c =>
          let kc := key (get h c) in
          if kc <? k then (h, RFind k c mk)
          else if kc =? k then
                 match mk with
                 | Some v => if Nat.eqb c v then (h, RLockP k pred v) else (h, RFind k 0 mk)
                 | None => (h, RCheck k pred c)
                 end
          else miss
      end
  | RCheck k pred v =>
      if linked (get h v) && negb (marked (get h v)) then (h, RLockV k pred v) else (h, Done false)
  | RLockV k pred v =>
      match acquire h t v with Some h' => (h', RMark k pred v) | None => (h, p) end
  | RMark k pred v =>
      if marked (get h v) then (h, RGiveUp v) else (setn h v set_marked, RLockP k pred v)
  | RGiveUp v => (setn h v (set_lock None), Done false)
  | RLockP k pred v =>
      match acquire h t pred with Some h' => (h', RValid k pred v) | None => (h, p) end
  | RValid k pred v =>
      if negb (marked (get h pred)) && opt_nat_eqb (next (get h pred)) (Some v)
      then (h, RUnlink k pred v) else (h, RUnlockP k pred v false)
  | RUnlink k pred v => (setn h pred (set_next (next (get h v))), RUnlockV k pred v true)
  | RUnlockV k pred v ok => (setn h v (set_lock None), RUnlockP k pred v ok)
  | RUnlockP k pred v ok =>
      (setn h pred (set_lock None), if ok then Done true else RFind k 0 (Some v))
  | CFind k pred =>
      match next (get h pred) with
      | None => (h, Done false)
      | Some c =>
          let kc := key (get h c) in
          if kc <? k then (h, CFind k c)
          else if kc =? k then (h, Done (linked (get h c) && negb (marked (get h c))))
          else (h, Done false)
      end
  end.

Definition start (o : opk) : pc :=
  match o with OAdd k => AFind k 0 | ORemove k => RFind k 0 None | OContains k => CFind k 0 end.

Definition thr_step (h : heap) (t : nat) (th : thr) : heap * thr :=
  match at_pc th with
  | Idle | Done _ =>
      match todo th with
      | [] => (h, {| todo := []; at_pc := Idle |})
      | o :: rest => (h, {| todo := rest; at_pc := start o |})
      end
  | p => let '(h', p') := action h t p in (h', {| todo := todo th; at_pc := p' |})
  end.

Definition step (s : state) (t : nat) : state :=
  match nth_error (ths s) t with
  | None => s
  | Some th => let '(h', th') := thr_step (hp s) t th in {| hp := h'; ths := upd (ths s) t th' |}
  end.

Definition header : nd := {| key := 0; next := None; marked := false; linked := true; lock := None |}.
Definition init (progs : list (list opk)) : state :=
  {| hp := [header]; ths := map (fun p => {| todo := p; at_pc := Idle |}) progs |}.

Definition run_sched (s : state) (sched : list nat) : state := fold_left step sched s.

(* the abstract set *)
Definition live (n : nd) : bool := linked n && negb (marked n).
Definition abs (h : heap) : list Z := map key (filter live (tl h)).

(* the keys met when following next pointers from node i *)
Fixpoint chain (fuel : nat) (h : heap) (x : option nat) : list Z :=
  match fuel, x with
  | Datatypes.S f, Some i => key (get h i) :: chain f h (next (get h i))
  | _, _ => []
  end.
