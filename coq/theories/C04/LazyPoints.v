(* C04 protocol model: where the operations of LazySkip.v take effect (state-level statements). *)
From VF Require Import Common.Base Common.Hist C04.Spec C04.Proofs.
From VF Require Import C04.LazySkip C04.ProofsLazy C04.LazyReach C04.LazyEff C04.LazyLock C04.LazyProgress
  C04.LazyHist C04.LazyTrace.
Local Open Scope Z_scope.

Section Pts.
Variable progs : list (list opk).
Variable sched : list nat.
Let s := run_sched (init progs) sched.

(* a successful Add takes effect at its fullyLinked step: the key is absent before and present after it *)
Theorem add_takes_effect t th k pred nn : nth_error (ths s) t = Some th -> at_pc th = AFull k pred nn ->
  ~ In k (abs (hp s)) /\ In k (abs (hp (step s t))) /\
  forall y, In y (abs (hp (step s t))) <-> y = k \/ In y (abs (hp s)).
Proof.
  intros E Ep. destruct (add_effect s (lazy_inv progs sched) (lazy_inv2 progs sched) t th k pred nn E Ep) as [A B].
  split; [now apply absent_true|split; [apply B; now left|exact B]].
Qed.

(* an Add that reports failure has just read a node with its key that is fully linked and not marked *)
Theorem add_fails_present t th k pred : nth_error (ths s) t = Some th -> at_pc th = AFind k pred ->
  snd (action (hp s) t (AFind k pred)) = Done false -> In k (abs (hp s)).
Proof.
  intros E Ep. pose proof (pcs_ok _ _ _ (lazy_inv progs sched) E) as P. rewrite Ep in P. simpl in P. destruct P as [V K].
  destruct (lazy_inv progs sched) as [_ O _]. fold s in O. cbn [action].
  destruct (nx (hp s) pred) as [c|] eqn:En; cbn [snd]; [|discriminate].
  destruct (O pred c V En) as (Pc & Vc & _).
  destruct (ky (hp s) c <? k); cbn [snd]; [discriminate|].
  destruct (ky (hp s) c =? k) eqn:E2; [|discriminate]. apply Z.eqb_eq in E2.
  destruct (mkd (hp s) c) eqn:Em; [discriminate|]. destruct (lkd (hp s) c) eqn:El; [|discriminate].
  intros _. apply absent_false. apply (present_live s k c Pc Vc); [|exact E2]. unfold live. now rewrite El, Em.
Qed.

(* a successful Remove takes effect at its marking step: the key is present before and absent after it *)
Theorem remove_takes_effect t th k pred v : nth_error (ths s) t = Some th -> at_pc th = RMark k pred v ->
  mkd (hp s) v = false ->
  In k (abs (hp s)) /\ ~ In k (abs (hp (step s t))) /\
  forall y, In y (abs (hp (step s t))) <-> y <> k /\ In y (abs (hp s)).
Proof.
  intros E Ep M. destruct (rem_effect s (lazy_inv progs sched) (lazy_inv2 progs sched) t th k pred v E Ep M) as [A B].
  split; [now apply absent_false|split; [|exact B]]. intros X. apply B in X. tauto.
Qed.
End Pts.
