(* C04 correspondence checker, evaluated by vm_compute on the cases the harness writes.

   Sequential cases: a trace of operations on one skipmap / skipset, each step with what the real code
   returned and what the verif accessors showed afterwards (level of every node on lane 0,
   highestLevel, the length counter). kind 2 = the result differs from the finite map / set Spec;
   kind 1 = result or shape differs from the Model.

   Concurrent cases: one recorded history (stamps from one atomic counter, invocation stamped before
   the call, response after it) plus the Range calls recorded alongside; kind 2 = the verified
   [lin_check] rejects the history (the quiescent Len/Keys/Values observations are its last operations)
   or [range_ok_b] rejects a Range observation. *)
From VF Require Import Common.Base Common.Hist C04.Spec C04.Model C04.ProofsRange.
From VF Require C04.LenCounter.
Local Open Scope Z_scope.

Record shape := { sh_levels : list nat; sh_hl : nat; sh_len : Z }.

Definition shape_eqb (s : skm) (sh : shape) : bool :=
  list_eqb Nat.eqb (map nh (nodes s)) (sh_levels sh) && Nat.eqb (hl s) (sh_hl sh) && (len s =? sh_len sh).

Definition mop' := op mop mres.
Definition sop' := op sop mres.

Definition fmap_eqb : fmap -> fmap -> bool := list_eqb pairZ_eqb.
Definition fset_eqb : fset -> fset -> bool := list_eqb Z.eqb.

Definition map_lin_check : fmap -> list mop' -> bool :=
  lin_check fmap mop mres fmap_step mres_eqb mop_eqb fmap_eqb.
Definition set_lin_check : fset -> list sop' -> bool :=
  lin_check fset sop mres fset_step mres_eqb sop_eqb fset_eqb.

(* key events of a recorded operation (see ProofsRange.v) *)
Definition kev1 {C} (o : op C mres) (k : Z) (kd : ekind) : kev :=
  {| e_inv := inv o; e_resp := resp o; e_key := k; e_kind := kd |}.

Definition map_events (o : mop') : list kev :=
  match call o, ret o with
  | (Store k _ _ | Put k _ _ | LoadOrStore k _ _ | LoadOrStoreLazy k _ _), _ => [kev1 o k EWrite]
  | (Load k | Get k), RGet _ true => [kev1 o k ESeen]
  | Delete k, RBool true => [kev1 o k EDel]
  | LoadAndDelete k, RGet _ true => [kev1 o k EDel]
  | Remove k, _ => [kev1 o k EDel]
  | Clear, _ => [kev1 o 0 EClear]
  | _, _ => []
  end.

Definition set_events (o : sop') : list kev :=
  match call o, ret o with
  | AddB x _, _ => [kev1 o x EWrite]
  | Add xs, _ => map (fun xh => kev1 o (fst xh) EWrite) xs
  | ContainsB x, RBool true => [kev1 o x ESeen]
  | RemoveB x, RBool true => [kev1 o x EDel]
  | SRemove xs, _ => map (fun x => kev1 o x EDel) xs
  | SClear, _ => [kev1 o 0 EClear]
  | _, _ => []
  end.

(* one recorded call of LoadOrStoreLazy (any schedule, any size of history): the value its constructor
   returns when run, what the call returned, and how often the call ran its constructor (closure counter).
   The clause "the lazy constructor runs at most once per successful insert" is judged per call, without
   any search: never more than once, exactly once when the call reports stored (loaded = false, and then
   the value returned is the constructed one), not at all when it reports loaded. *)
Record lazy_call := { lz_key : Z; lz_v : Z; lz_actual : Z; lz_loaded : bool; lz_calls : nat }.

Definition lzc (k v a : Z) (l : bool) (c : nat) : lazy_call :=   (* short form used by the case files *)
  {| lz_key := k; lz_v := v; lz_actual := a; lz_loaded := l; lz_calls := c |}.

Definition lazy_call_ok_b (c : lazy_call) : bool :=
  if lz_loaded c then Nat.eqb (lz_calls c) 0
  else Nat.eqb (lz_calls c) 1 && (lz_actual c =? lz_v c).

Inductive case :=
| LazyCalls (calls : list lazy_call)
| SeqMap (steps : list (mop * mres * shape))
| SeqSet (steps : list (sop * mres * shape))
| HistMap (h : list mop') (ranges : list range_obs)
| HistSet (h : list sop') (ranges : list range_obs)
| LenLag (steps : list LenCounter.lstep) (obs_len obs_keys : Z).

(* like Base.scan, but a kind-2 step later in the trace wins over an earlier kind-1 step: the Spec
   verdict does not depend on the model state, so it stays meaningful after a model mismatch *)
Fixpoint scan2 {S X} (f : S -> X -> S * nat) (s : S) (xs : list X) (i : nat) (first1 : nat) : nat :=
  match xs with
  | [] => first1
  | x :: t => let '(s', k) := f s x in
              if Nat.eqb k 2 then i * 4 + 2
              else scan2 f s' t (Datatypes.S i) (if Nat.eqb first1 0 && Nat.eqb k 1 then i * 4 + 1 else first1)
  end.

Definition map_seq_step (st : skm * fmap) (x : mop * mres * shape) : (skm * fmap) * nat :=
  let '(o, r, sh) := x in
  let '(ms, rm) := skipmap_step (fst st) o in
  let '(sp, rs) := fmap_step (snd st) o in
  ((ms, sp), kind_of (mres_eqb rm r && shape_eqb ms sh) (mres_eqb rs r)).

Definition set_seq_step (st : skm * fset) (x : sop * mres * shape) : (skm * fset) * nat :=
  let '(o, r, sh) := x in
  let '(ms, rm) := skipset_step (fst st) o in
  let '(sp, rs) := fset_step (snd st) o in
  ((ms, sp), kind_of (mres_eqb rm r && shape_eqb ms sh) (mres_eqb rs r)).

(* step 0 = "linearizable", step 1 = "Range" *)
Definition hist_code (lin_ok ranges_ok : bool) : nat :=
  if negb lin_ok then 2 else if negb ranges_ok then 1 * 4 + 2 else 0.

(* the length counter sampled while calls are parked at the yield points 7 / 8 (scripted): the counter protocol
   model LenCounter predicts both the counter and the number of keys a Range reports; when the model state is
   quiescent a counter different from the number of keys violates the property itself (kind 2) *)
Definition len_lag_code (es : list LenCounter.lstep) (obs_len obs_keys : Z) : nat :=
  let s := LenCounter.run es in
  if (LenCounter.pa s =? 0) && (LenCounter.pr s =? 0) && negb (obs_len =? obs_keys) then 2
  else if (LenCounter.len s =? obs_len) && (LenCounter.present s =? obs_keys) then 0 else 1.

Definition check_case (c : case) : nat :=
  match c with
  | LazyCalls calls => if forallb lazy_call_ok_b calls then 0 else 2
  | SeqMap steps => scan2 map_seq_step (sm0, []) steps 0 0
  | SeqSet steps => scan2 set_seq_step (sm0, []) steps 0 0
  | HistMap h rs =>
      let evs := flat_map map_events h in
      hist_code (map_lin_check [] h) (forallb (range_ok_b evs) rs)
  | HistSet h rs =>
      let evs := flat_map set_events h in
      hist_code (set_lin_check [] h) (forallb (range_ok_b evs) rs)
  | LenLag es ol ok => len_lag_code es ol ok
  end.

Definition mismatches (cs : list case) : list (nat * nat) := find_bad check_case cs.
