(* C04 property theorems about the length counter (Len / Size / Empty). Nothing but statements closed by [exact]
   and Print Assumptions.  The model (C04/LenCounter.v) is the counter protocol only: contents abstracted to their
   number, one step per publication / counter increment / removal / counter decrement; it is evaluated against the
   real counter by the LenLag cases of Check.v (calls parked at the yield points 7 and 8). *)
From Coq Require Import List ZArith.
From VF Require Import C04.LenCounter.
From VF Require C04.Check C04.ProofsLen.
Import ProofsLen.
Import ListNotations.
Local Open Scope Z_scope.

(* every reachable state, any interleaving of any number of inserts and deletes: the counter equals the number of
   keys present, minus the inserts published and not yet counted, plus the deletes done and not yet discounted *)
Theorem C04_len_counter_invariant : forall es,
  0 <= present (run es) /\ 0 <= pa (run es) /\ 0 <= pr (run es) /\
  len (run es) = present (run es) - pa (run es) + pr (run es).
Proof. exact inv_run. Qed.

(* 'when no operation is in flight Len/Size/Empty agree with the contents' *)
Theorem C04_len_quiescent : forall es, quiescent (run es) ->
  len (run es) = present (run es) /\ (len (run es) = 0 <-> present (run es) = 0).
Proof. exact (fun es Q => conj (quiescent_len es Q) (empty_agrees_quiescent es Q)). Qed.

(* in flight the counter is off by at most the calls inside the two windows *)
Theorem C04_len_lag_bounds : forall es,
  present (run es) - pa (run es) <= len (run es) <= present (run es) + pr (run es).
Proof. exact len_bounds. Qed.

(* a reader must not trust the counter while calls are in flight: it reads 0 with a key present (the state seeded
   change C04-16 needs), it can be negative, and it reads 0 with a key present that no in-flight call inserted *)
Theorem C04_len_zero_not_empty_refuted :
  (exists es, len (run es) = 0 /\ present (run es) = 1 /\ ~ zero_means_empty (run es)) /\
  (exists es, len (run es) = -1 /\ present (run es) = 0) /\
  (exists es, len (run es) = 0 /\ present (run es) = 1 /\ pa (run es) = 1 /\ pr (run es) = 0).
Proof. exact (conj zero_not_empty (conj len_negative zero_with_settled_key)). Qed.

(* what a LenLag case decides: code 0 iff the sampled counter and key count are the model's, code 2 only when the
   model state is quiescent and the counter differs from the number of keys *)
Theorem C04_len_lag_code : forall es ol ok,
  (Check.len_lag_code es ol ok = 0%nat -> len (run es) = ol /\ present (run es) = ok) /\
  (Check.len_lag_code es ol ok = 2%nat -> quiescent (run es) /\ ol <> ok).
Proof. exact len_lag_code_ok. Qed.

Print Assumptions C04_len_counter_invariant.
Print Assumptions C04_len_quiescent.
Print Assumptions C04_len_lag_bounds.
Print Assumptions C04_len_zero_not_empty_refuted.
Print Assumptions C04_len_lag_code.
