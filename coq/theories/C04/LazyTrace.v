(* C04 protocol model: facts about whole executions of LazySkip.v (the sequence of states of a schedule):
   monotonicity of flags, the hindsight lemma (a node that was reachable at moment m and whose next pointer
   is read at moment n >= m was reachable with that very next pointer at some moment in between), the first
   moment a node is seen marked, and what the two linearization steps do to the abstract set. *)
From VF Require Import Common.Base Common.Hist C04.Spec C04.Proofs.
From VF Require Import C04.LazySkip C04.ProofsLazy C04.LazyReach C04.LazyEff C04.LazyLock C04.LazyProgress C04.LazyHist.
Local Open Scope Z_scope.

(* ---------- the abstract set ---------- *)
Lemma in_tl_iff (h : heap) n : In n (tl h) <-> exists x, (1 <= x)%nat /\ valid h x /\ get h x = n.
Proof.
  destruct h as [|a h]; simpl.
  - split; [tauto|]. intros (x & _ & V & _). unfold valid in V. simpl in V. lia.
  - split.
    + intros Hin. apply In_nth with (d := get [] 0) in Hin as (i & Li & E).
      exists (Datatypes.S i). split; [lia|split; [unfold valid; simpl; lia|exact E]].
    + intros (x & P & V & E). destruct x as [|x]; [lia|]. unfold valid in V. simpl in V.
      unfold get in E. simpl in E. rewrite <- E. apply nth_In. lia.
Qed.

Lemma abs_in h k : In k (abs h) <-> exists x, (1 <= x)%nat /\ valid h x /\ live (get h x) = true /\ ky h x = k.
Proof.
  unfold abs. rewrite in_map_iff. split.
  - intros (n & E & Hin). apply filter_In in Hin as [Hin L]. apply in_tl_iff in Hin as (x & P & V & <-). eauto.
  - intros (x & P & V & L & E). exists (get h x). split; [exact E|]. apply filter_In. split; [|exact L].
    apply in_tl_iff. eauto.
Qed.

Lemma absent_true k h : absent k h = true <-> ~ In k (abs h).
Proof.
  unfold absent. rewrite negb_true_iff. split.
  - intros E Hin. assert (X : existsb (Z.eqb k) (abs h) = true) by (apply existsb_exists; exists k; split; [exact Hin|apply Z.eqb_refl]).
    congruence.
  - intros N. destruct (existsb (Z.eqb k) (abs h)) eqn:E; [|reflexivity]. exfalso. apply N.
    apply existsb_exists in E as (y & Hin & Ey). apply Z.eqb_eq in Ey. now subst.
Qed.

Lemma absent_false k h : absent k h = false <-> In k (abs h).
Proof.
  split.
  - intros E. destruct (in_dec Z.eq_dec k (abs h)) as [I|N]; [exact I|]. apply absent_true in N. congruence.
  - intros I. destruct (absent k h) eqn:E; [|reflexivity]. apply absent_true in E. contradiction.
Qed.

Section State.
Variable s : state.
Hypothesis LI : LInv s.
Hypothesis I2 : Inv2 s.

Lemma live_reach x : valid (hp s) x -> live (get (hp s) x) = true -> reach (hp s) 0 x.
Proof.
  intros V L. apply (i2_r1 _ I2 x V). unfold live in L. apply andb_true_iff in L as [_ L].
  now apply negb_true_iff in L.
Qed.

(* the only reachable node with key k is not live: k is absent *)
Lemma absent_unique k v : (1 <= v)%nat -> reach (hp s) 0 v -> ky (hp s) v = k -> live (get (hp s) v) = false -> absent k (hp s) = true.
Proof.
  intros Pv Rv Kv Lv. apply absent_true. intros Hin. apply abs_in in Hin as (x & Px & Vx & Lx & Kx).
  assert (x = v).
  { destruct LI as [_ O _]. apply (reach_key_unique (hp s) x v O Px Pv); [now apply live_reach|exact Rv|congruence]. }
  subst x. congruence.
Qed.

Lemma absent_gap k p c : reach (hp s) 0 p -> (p <> 0%nat -> ky (hp s) p < k) -> nx (hp s) p = c ->
  match c with Some m => k < ky (hp s) m | None => True end -> absent k (hp s) = true.
Proof.
  intros Rp Kp E Kc. apply absent_true. intros Hin. apply abs_in in Hin as (x & Px & Vx & Lx & Kx).
  destruct LI as [_ O _]. exact (reach_gap (hp s) p c k x O Rp Kp E Kc Px (live_reach x Vx Lx) Kx).
Qed.

Lemma present_live k c : (1 <= c)%nat -> valid (hp s) c -> live (get (hp s) c) = true -> ky (hp s) c = k -> absent k (hp s) = false.
Proof. intros P V L K. apply absent_false. apply abs_in. eauto. Qed.

(* the fullyLinked step of an Add *)
Lemma add_effect t th k pred nn : nth_error (ths s) t = Some th -> at_pc th = AFull k pred nn ->
  absent k (hp s) = true /\ forall y, In y (abs (hp (step s t))) <-> y = k \/ In y (abs (hp s)).
Proof.
  intros E Ep. pose proof (i2_tk _ I2 _ _ E) as T. rewrite Ep in T. simpl in T.
  destruct T as (TL & TM & TN & Pn & Kn & Ln & Mn).
  pose proof (pcs_ok _ _ _ LI E) as P. rewrite Ep in P. simpl in P. destruct P as [Vp Vn].
  assert (Rn : reach (hp s) 0 nn) by (apply (i2_r1 _ I2 nn Vn Mn)).
  split.
  - apply (absent_unique k nn Pn Rn Kn). unfold live. now rewrite Ln.
  - assert (EH : hp (step s t) = setn (hp s) nn set_linked).
    { destruct (step_thread s t th E) as [_ X]. rewrite X. unfold thr_step. rewrite Ep. reflexivity. }
    rewrite EH. intros y. rewrite !abs_in. split.
    + intros (x & Px & Vx & Lx & Kx). apply valid_setn in Vx. rewrite (fld_setn key) in Kx by reflexivity.
      rewrite get_setn in Lx by exact Vn. destruct (Nat.eq_dec x nn) as [->|N].
      * left. congruence.
      * right. exists x. auto.
    + intros [->|(x & Px & Vx & Lx & Kx)].
      * exists nn. split; [exact Pn|split; [now apply valid_setn|]]. rewrite (fld_setn key) by reflexivity.
        split; [|exact Kn]. rewrite get_setn_same by exact Vn. unfold live. simpl. now rewrite Mn.
      * exists x. split; [exact Px|split; [now apply valid_setn|]]. rewrite (fld_setn key) by reflexivity.
        split; [|exact Kx]. rewrite get_setn by exact Vn. destruct (Nat.eq_dec x nn) as [->|N]; [|exact Lx].
        unfold live in Lx.  rewrite Ln in Lx. discriminate.
Qed.

(* the marking step of a Remove *)
Lemma rem_effect t th k pred v : nth_error (ths s) t = Some th -> at_pc th = RMark k pred v -> mkd (hp s) v = false ->
  absent k (hp s) = false /\ forall y, In y (abs (hp (step s t))) <-> y <> k /\ In y (abs (hp s)).
Proof.
  intros E Ep Mv. pose proof (i2_tk _ I2 _ _ E) as T. rewrite Ep in T. simpl in T. destruct T as (TL & TK).
  pose proof (pcs_ok _ _ _ LI E) as P. rewrite Ep in P. simpl in P. destruct P as [_ (Pv & Vv & Kv)].
  assert (Lv : live (get (hp s) v) = true) by (unfold live; rewrite TK, Mv; reflexivity).
  split; [now apply (present_live k v)|].
  assert (EH : hp (step s t) = setn (hp s) v set_marked).
  { destruct (step_thread s t th E) as [_ X]. rewrite X. unfold thr_step. rewrite Ep. cbn [action].
    rewrite Mv. reflexivity. }
  rewrite EH. intros y. rewrite !abs_in. split.
  - intros (x & Px & Vx & Lx & Kx). apply valid_setn in Vx. rewrite (fld_setn key) in Kx by reflexivity.
    rewrite get_setn in Lx by exact Vv. destruct (Nat.eq_dec x v) as [->|N].
    + unfold live in Lx. simpl in Lx. rewrite andb_false_r in Lx. discriminate.
    + split; [|exists x; auto]. intros ->. apply N. destruct LI as [_ O _].
      apply (reach_key_unique (hp s) x v O Px Pv); [now apply live_reach|now apply live_reach|congruence].
  - intros (Ny & x & Px & Vx & Lx & Kx). exists x. split; [exact Px|split; [now apply valid_setn|]].
    rewrite (fld_setn key) by reflexivity. split; [|exact Kx]. rewrite get_setn by exact Vv.
    destruct (Nat.eq_dec x v) as [->|N]; [|exact Lx]. congruence.
Qed.
End State.

(* ---------- the sequence of states of one schedule ---------- *)
Lemma istep_state g t : i_s (istep g t) = step (i_s g) t.
Proof. unfold istep. destruct (fin_res (i_s g) t); [destruct (nth t (own_upd _ _ _ _) None)|]; reflexivity. Qed.

Lemma istep_n g t : i_n (istep g t) = Datatypes.S (i_n g).
Proof. unfold istep. destruct (fin_res (i_s g) t); [destruct (nth t (own_upd _ _ _ _) None)|]; reflexivity. Qed.

Lemma irun_state progs sched : i_s (irun progs sched) = run_sched (init progs) sched.
Proof.
  unfold irun, run_sched. change (init progs) with (i_s (iinit progs)). generalize (iinit progs).
  induction sched as [|t l IH]; intros g; [reflexivity|]. simpl. rewrite IH. now rewrite istep_state.
Qed.

Section Trace.
Variable progs : list (list opk).
Variable sched : list nat.

Definition ir (n : nat) : ist := irun progs (firstn n sched).
Definition st (n : nat) : state := i_s (ir n).
Definition tidx (n : nat) : nat := nth n sched 0%nat.

Lemma firstn_S_nth {A} (l : list A) n d : (n < length l)%nat -> firstn (Datatypes.S n) l = firstn n l ++ [nth n l d].
Proof.
  revert n. induction l as [|a l IH]; intros n L; simpl in L; [lia|].
  destruct n as [|n]; [reflexivity|]. simpl. f_equal. apply IH. lia.
Qed.

Lemma ir_S n : (n < length sched)%nat -> ir (Datatypes.S n) = istep (ir n) (tidx n).
Proof.
  intros L. unfold ir, irun. rewrite (firstn_S_nth sched n 0%nat L), fold_left_app. reflexivity.
Qed.

Lemma ir_ge n : (length sched <= n)%nat -> ir (Datatypes.S n) = ir n.
Proof. intros L. unfold ir. rewrite !firstn_all2 by lia. reflexivity. Qed.

Lemma st_S n : (n < length sched)%nat -> st (Datatypes.S n) = step (st n) (tidx n).
Proof. intros L. unfold st. rewrite ir_S by exact L. apply istep_state. Qed.

Lemma st_run n : st n = run_sched (init progs) (firstn n sched).
Proof. apply irun_state. Qed.

Lemma st_linv n : LInv (st n).
Proof. rewrite st_run. apply lazy_inv. Qed.

Lemma st_inv2 n : Inv2 (st n).
Proof. rewrite st_run. apply lazy_inv2. Qed.

Lemma ir_n n : (n <= length sched)%nat -> i_n (ir n) = n.
Proof.
  induction n as [|n IH]; intros L; [reflexivity|]. rewrite ir_S by lia. rewrite istep_n. f_equal. apply IH. lia.
Qed.

Lemma st_G n : exists t fl ul, G t (hp (st n)) (hp (st (Datatypes.S n))) fl ul.
Proof.
  destruct (Nat.lt_ge_cases n (length sched)) as [L|L].
  - rewrite (st_S n L). destruct (step_G (st n) (tidx n) (st_linv n) (st_inv2 n)) as (fl & ul & X). eauto.
  - unfold st. rewrite ir_ge by exact L. exists 0%nat, None, None. apply G_none.
Qed.

Lemma st_ext m d : ext (hp (st m)) (hp (st (m + d))).
Proof.
  induction d as [|d IH]; [rewrite Nat.add_0_r; apply ext_refl|].
  replace (m + Datatypes.S d)%nat with (Datatypes.S (m + d)) by lia.
  destruct (st_G (m + d)) as (t & fl & ul & X). eapply ext_trans; [exact IH|exact (g_ext _ _ _ _ _ X)].
Qed.

Lemma st_valid m n x : (m <= n)%nat -> valid (hp (st m)) x -> valid (hp (st n)) x.
Proof. intros L V. replace n with (m + (n - m))%nat by lia. eapply valid_ext; [apply st_ext|exact V]. Qed.

Lemma st_key m n x : (m <= n)%nat -> valid (hp (st m)) x -> ky (hp (st n)) x = ky (hp (st m)) x.
Proof. intros L V. replace n with (m + (n - m))%nat by lia. destruct (st_ext m (n - m)) as [_ X]. now apply X. Qed.

Lemma st_marked m n x : (m <= n)%nat -> valid (hp (st m)) x -> mkd (hp (st m)) x = true -> mkd (hp (st n)) x = true.
Proof.
  intros L V M. replace n with (m + (n - m))%nat by lia. induction (n - m)%nat as [|d IH]; [now rewrite Nat.add_0_r|].
  replace (m + Datatypes.S d)%nat with (Datatypes.S (m + d)) by lia.
  destruct (st_G (m + d)) as (t & fl & ul & X).
  apply (g_mono _ _ _ _ _ X x); [apply (st_valid m); [lia|exact V]|exact IH].
Qed.

Lemma st_linked m n x : (m <= n)%nat -> valid (hp (st m)) x -> lkd (hp (st m)) x = true -> lkd (hp (st n)) x = true.
Proof.
  intros L V M. replace n with (m + (n - m))%nat by lia. induction (n - m)%nat as [|d IH]; [now rewrite Nat.add_0_r|].
  replace (m + Datatypes.S d)%nat with (Datatypes.S (m + d)) by lia.
  destruct (st_G (m + d)) as (t & fl & ul & X).
  apply (g_mono _ _ _ _ _ X x); [apply (st_valid m); [lia|exact V]|exact IH].
Qed.

Lemma reach0_valid n x : reach (hp (st n)) 0 x -> valid (hp (st n)) x.
Proof. destruct (st_linv n) as [L O _]. intros R. eapply reach_valid; [exact L|exact O|exact R]. Qed.

(* hindsight: a node reachable at moment m whose next pointer is read at moment n >= m had that next pointer
   while being reachable at some moment in between *)
Lemma hindsight m n x : (m <= n)%nat -> reach (hp (st m)) 0 x ->
  exists m', (m <= m' <= n)%nat /\ reach (hp (st m')) 0 x /\ nx (hp (st m')) x = nx (hp (st n)) x.
Proof.
  intros L R. replace n with (m + (n - m))%nat by lia. induction (n - m)%nat as [|d IH].
  - rewrite Nat.add_0_r. exists m. split; [lia|split; [exact R|reflexivity]].
  - destruct IH as (m' & Lm & Rm & Em).
    replace (m + Datatypes.S d)%nat with (Datatypes.S (m + d)) by lia.
    assert (ED : {nx (hp (st (Datatypes.S (m + d)))) x = nx (hp (st (m + d))) x} +
                 {nx (hp (st (Datatypes.S (m + d)))) x <> nx (hp (st (m + d))) x}).
    { decide equality. apply Nat.eq_dec. }
    destruct ED as [Eq|Ne].
    + exists m'. split; [lia|split; [exact Rm|congruence]].
    + exists (Datatypes.S (m + d)). split; [lia|split; [|reflexivity]].
      destruct (st_G (m + d)) as (t & fl & ul & X).
      assert (V : valid (hp (st (m + d))) x) by (apply (st_valid m); [lia|now apply reach0_valid]).
      destruct (g_next_locked _ _ _ _ _ X x V Ne) as [_ M].
      apply (i2_r1 _ (st_inv2 _)); [|exact M]. apply (st_valid (m + d)); [lia|exact V].
Qed.

(* the first moment at which a node is seen marked: it is still reachable then *)
Lemma first_marked m n x : (m <= n)%nat -> valid (hp (st m)) x -> mkd (hp (st m)) x = false -> mkd (hp (st n)) x = true ->
  exists j, (m < j <= n)%nat /\ mkd (hp (st j)) x = true /\ reach (hp (st j)) 0 x.
Proof.
  intros L V M0. replace n with (m + (n - m))%nat by lia. induction (n - m)%nat as [|d IH].
  - rewrite Nat.add_0_r. congruence.
  - replace (m + Datatypes.S d)%nat with (Datatypes.S (m + d)) by lia. intros M1.
    destruct (mkd (hp (st (m + d))) x) eqn:Md.
    + destruct (IH eq_refl) as (j & Lj & Mj & Rj). exists j. split; [lia|auto].
    + exists (Datatypes.S (m + d)). split; [lia|split; [exact M1|]].
      assert (Vd : valid (hp (st (m + d))) x) by (apply (st_valid m); [lia|exact V]).
      destruct (st_G (m + d)) as (t & fl & ul & X).
      apply (g_reach _ _ _ _ _ X); [apply (i2_r1 _ (st_inv2 _)); assumption|].
      intros Eu. destruct (g_ul _ _ _ _ _ X x Eu) as (_ & Y & _). congruence.
Qed.

(* a node with key k that was reachable at moment m and is marked at moment n >= m: k was absent at some
   moment in between *)
Lemma absent_since_marked m n v k : (m <= n)%nat -> (1 <= v)%nat -> reach (hp (st m)) 0 v -> ky (hp (st m)) v = k ->
  mkd (hp (st n)) v = true -> exists j, (m <= j <= n)%nat /\ absent k (hp (st j)) = true.
Proof.
  intros L Pv R K M. pose proof (reach0_valid m v R) as V.
  destruct (mkd (hp (st m)) v) eqn:M0.
  - exists m. split; [lia|]. apply (absent_unique (st m) (st_linv m) (st_inv2 m) k v Pv R K).
    unfold live. rewrite M0. apply andb_false_r.
  - destruct (first_marked m n v L V M0 M) as (j & Lj & Mj & Rj). exists j. split; [lia|].
    apply (absent_unique (st j) (st_linv j) (st_inv2 j) k v Pv Rj).
    + rewrite (st_key m j v); [exact K|lia|exact V].
    + unfold live. rewrite Mj. apply andb_false_r.
Qed.
End Trace.
