(* C04: the atomic length counter of skipmap / skipset as a small-step system.
   The code updates the counter AFTER the insert has published its node (fullyLinked set, locks released:
   skipmap.go Store / LoadOrStore / LoadOrStoreLazy, skipset.go AddB) and AFTER the delete has unlinked its victim
   (Delete / LoadAndDelete / RemoveB), each by one atomic.AddInt64.  Between the two steps of one call (yield points
   7 and 8 of the verif hook) the counter lags the contents.  The model abstracts the contents to their number:
   it is about the COUNTER protocol only (which keys are present is the business of LazySkip / LazyMap). *)
From Coq Require Import List ZArith Lia.
Import ListNotations.
Local Open Scope Z_scope.

Record lstate := { present : Z;   (* keys a search would report: published and not marked *)
                   len : Z;       (* the atomic counter behind Len / Size / Empty *)
                   pa : Z;        (* inserts between publication and length++ *)
                   pr : Z }.      (* deletes between removal and length-- *)

Inductive lstep := SPublish | SCount | SRemove | SDiscount | SRead.

Definition init : lstate := {| present := 0; len := 0; pa := 0; pr := 0 |}.

(* a step that is not enabled (no insert to count, nothing to remove) leaves the state as it is *)
Definition step (s : lstate) (e : lstep) : lstate :=
  match e with
  | SPublish => {| present := present s + 1; len := len s; pa := pa s + 1; pr := pr s |}
  | SCount => if 0 <? pa s then {| present := present s; len := len s + 1; pa := pa s - 1; pr := pr s |} else s
  | SRemove => if 0 <? present s then {| present := present s - 1; len := len s; pa := pa s; pr := pr s + 1 |} else s
  | SDiscount => if 0 <? pr s then {| present := present s; len := len s - 1; pa := pa s; pr := pr s - 1 |} else s
  | SRead => s
  end.

Definition run (es : list lstep) : lstate := fold_left step es init.

Definition Inv (s : lstate) : Prop :=
  0 <= present s /\ 0 <= pa s /\ 0 <= pr s /\ len s = present s - pa s + pr s.

Definition quiescent (s : lstate) : Prop := pa s = 0 /\ pr s = 0.

(* what the seeded fast path `if length == 0 { return absent }` of Load assumes *)
Definition zero_means_empty (s : lstate) : Prop := len s = 0 -> present s = 0.

Lemma inv_init : Inv init.
Proof. unfold Inv, init; simpl; lia. Qed.

Lemma inv_step : forall s e, Inv s -> Inv (step s e).
Proof.
  intros s e (Hp & Ha & Hr & Hl). unfold Inv. destruct e; simpl.
  - lia.
  - destruct (Z.ltb_spec 0 (pa s)); simpl; lia.
  - destruct (Z.ltb_spec 0 (present s)); simpl; lia.
  - destruct (Z.ltb_spec 0 (pr s)); simpl; lia.
  - lia.
Qed.

Lemma inv_fold : forall es s, Inv s -> Inv (fold_left step es s).
Proof. induction es as [|e es IH]; simpl; intros s H; [exact H | apply IH, inv_step, H]. Qed.

Lemma inv_run : forall es, Inv (run es).
Proof. intro es. apply inv_fold, inv_init. Qed.

Lemma quiescent_len : forall es, quiescent (run es) -> len (run es) = present (run es).
Proof. intros es (Ha & Hr). destruct (inv_run es) as (_ & _ & _ & Hl). lia. Qed.

Lemma len_bounds : forall es,
  present (run es) - pa (run es) <= len (run es) <= present (run es) + pr (run es).
Proof. intro es. destruct (inv_run es) as (Hp & Ha & Hr & Hl). lia. Qed.

Lemma empty_agrees_quiescent : forall es, quiescent (run es) ->
  (len (run es) = 0 <-> present (run es) = 0).
Proof. intros es Q. rewrite (quiescent_len es Q). tauto. Qed.

(* the counter reads 0 while a key is present: one insert published, not yet counted *)
Lemma zero_not_empty : exists es, len (run es) = 0 /\ present (run es) = 1 /\ ~ zero_means_empty (run es).
Proof. exists [SPublish]. vm_compute. split; [reflexivity|]. split; [reflexivity|]. intro H. specialize (H eq_refl). discriminate. Qed.

(* ... and with NO removal pending: one key counted and present, a second insert published, the first key's delete
   complete; the counter says 0 = 1 + 1 - 1 - 1 ... more simply: it can even be negative *)
Lemma len_negative : exists es, len (run es) = -1 /\ present (run es) = 0.
Proof. exists [SPublish; SRemove; SDiscount]. vm_compute. split; reflexivity. Qed.

(* and zero with a key present that no in-flight call owns: the scripted schedule 'LoadOrStore parked at 7,
   LoadAndDelete of its key, Store of another key' *)
Lemma zero_with_settled_key : exists es,
  len (run es) = 0 /\ present (run es) = 1 /\ pa (run es) = 1 /\ pr (run es) = 0.
Proof. exists [SPublish; SRemove; SDiscount; SPublish; SCount]. vm_compute. repeat split; reflexivity. Qed.
