(* C04 protocol model WITH VALUES (LazyMap.v, repaired code): facts about whole executions (the sequence of states of
   a schedule): monotonicity of flags, the recorded heaps, the hindsight lemma, the step that marks a node, values
   frozen by the mark. *)
From VF Require Import Common.Base Common.Hist C04.Spec C04.LazyMap C04.ProofsLazyMap C04.LzmReach C04.LzmLock C04.LzmAbs
  C04.LzmHist.
Local Open Scope Z_scope.

Lemma gstep_state g t : g_s (gstep g t) = step true (g_s g) t.
Proof. reflexivity. Qed.

Lemma gstep_n g t : g_n (gstep g t) = Datatypes.S (g_n g).
Proof. reflexivity. Qed.

Lemma grun_run progs sched : g_s (grun progs sched) = run_sched true (init progs) sched.
Proof.
  unfold grun, run_sched. change (init progs) with (g_s (ginit progs)). generalize (ginit progs).
  induction sched as [|t l IH]; intros g; [reflexivity|]. simpl. now rewrite IH.
Qed.

Lemma step_writes s t i : Inv s -> valid (hp s) i -> exists p, writes (hp s) (hp (step true s t)) p i.
Proof.
  intros [L O P T] V. destruct (step_cases true s t) as [E|(th & h' & th' & Hth & Tr & E)]; rewrite E.
  - exists Idle. now apply writes_none.
  - exists (at_pc th). cbn [hp]. eapply trans_writes; eauto.
Qed.

(* a step that marks a node leaves its value alone *)
Lemma step_mark_value s t i : Inv s -> valid (hp s) i -> mkd (hp s) i = false -> mkd (hp (step true s t)) i = true ->
  vl (hp (step true s t)) i = vl (hp s) i.
Proof.
  intros I1 V M0 M1. destruct (step_writes s t i I1 V) as (p & WV & WM & _).
  destruct (Z.eq_dec (vl (hp (step true s t)) i) (vl (hp s) i)) as [E|E]; [exact E|exfalso].
  destruct WM as (k0 & p0 & ->); [congruence|]. destruct (WV E) as [(k1 & v1 & X)|(k1 & v1 & X)]; discriminate.
Qed.

(* a step that marks a node is the RMark step of a LoadAndDelete / Delete, which knows that the node is fully linked *)
Lemma step_mark_linked s t i : Inv s -> InvR s -> valid (hp s) i -> mkd (hp s) i = false ->
  mkd (hp (step true s t)) i = true -> lkd (hp s) i = true.
Proof.
  intros [L O P T] [F SF] V M0 M1.
  destruct (step_cases true s t) as [E|(th & h' & th' & Hth & Tr & E)]; rewrite E in M1; [congruence|].
  cbn [hp] in M1. destruct (trans_writes _ _ _ _ _ _ i V Tr) as (_ & WM & _).
  destruct WM as (k0 & p0 & Ep); [congruence|]. pose proof (F t th Hth) as Ft. rewrite Ep in Ft. exact Ft.
Qed.

Section Trace.
Variable progs : list (list opk).
Variable sched : list nat.

Definition gr (n : nat) : gst := grun progs (firstn n sched).
Definition st (n : nat) : state := g_s (gr n).
Definition tidx (n : nat) : nat := nth n sched 0%nat.

Lemma firstn_S_nth {A} (l : list A) n d : (n < length l)%nat -> firstn (Datatypes.S n) l = firstn n l ++ [nth n l d].
Proof.
  revert n. induction l as [|a l IH]; intros n L; simpl in L; [lia|].
  destruct n as [|n]; [reflexivity|]. simpl. f_equal. apply IH. lia.
Qed.

Lemma gr_S n : (n < length sched)%nat -> gr (Datatypes.S n) = gstep (gr n) (tidx n).
Proof.
  intros L. unfold gr, grun. rewrite (firstn_S_nth sched n 0%nat L), fold_left_app. reflexivity.
Qed.

Lemma gr_ge n : (length sched <= n)%nat -> gr (Datatypes.S n) = gr n.
Proof. intros L. unfold gr. rewrite !firstn_all2 by lia. reflexivity. Qed.

Lemma st_S n : (n < length sched)%nat -> st (Datatypes.S n) = step true (st n) (tidx n).
Proof. intros L. unfold st. rewrite gr_S by exact L. reflexivity. Qed.

Lemma st_run n : st n = run true progs (firstn n sched).
Proof. apply grun_run. Qed.

Lemma st_inv n : Inv (st n).
Proof. rewrite st_run. apply lazymap_inv. Qed.

Lemma st_invR n : InvR (st n).
Proof. rewrite st_run. apply lazymap_invR. Qed.

Lemma st_inv3 n : Inv3 (st n).
Proof. rewrite st_run. apply lazymap_inv3. Qed.

Lemma gr_n n : (n <= length sched)%nat -> g_n (gr n) = n.
Proof.
  induction n as [|n IH]; intros L; [reflexivity|]. rewrite gr_S by lia. rewrite gstep_n. f_equal. apply IH. lia.
Qed.

Lemma st_step3 n : Step3 (hp (st n)) (hp (st (Datatypes.S n))).
Proof.
  destruct (Nat.lt_ge_cases n (length sched)) as [L|L].
  - rewrite (st_S n L). apply step_inv3; [apply st_inv|apply st_invR|apply st_inv3].
  - unfold st. rewrite gr_ge by exact L. apply step3_same. exact (i3_r1 _ (st_inv3 n)).
Qed.

Lemma st_ext1 n : ext (hp (st n)) (hp (st (Datatypes.S n))).
Proof.
  destruct (Nat.lt_ge_cases n (length sched)) as [L|L].
  - rewrite (st_S n L). apply step_ext. apply st_inv.
  - unfold st. rewrite gr_ge by exact L. apply ext_refl.
Qed.

Lemma st_ext m d : ext (hp (st m)) (hp (st (m + d))).
Proof.
  induction d as [|d IH]; [rewrite Nat.add_0_r; apply ext_refl|].
  replace (m + Datatypes.S d)%nat with (Datatypes.S (m + d)) by lia.
  eapply ext_trans; [exact IH|apply st_ext1].
Qed.

Lemma st_ext_le m n : (m <= n)%nat -> ext (hp (st m)) (hp (st n)).
Proof. intros L. replace n with (m + (n - m))%nat by lia. apply st_ext. Qed.

Lemma st_valid m n x : (m <= n)%nat -> valid (hp (st m)) x -> valid (hp (st n)) x.
Proof. intros L V. apply (valid_ext (hp (st m))); [now apply st_ext_le|exact V]. Qed.

Lemma st_key m n x : (m <= n)%nat -> valid (hp (st m)) x -> ky (hp (st n)) x = ky (hp (st m)) x.
Proof. intros L V. destruct (st_ext_le m n L) as (_ & X & _). now apply X. Qed.

Lemma st_marked m n x : (m <= n)%nat -> mkd (hp (st m)) x = true -> mkd (hp (st n)) x = true.
Proof. intros L M. destruct (st_ext_le m n L) as (_ & _ & X & _). now apply X. Qed.

Lemma st_linked m n x : (m <= n)%nat -> lkd (hp (st m)) x = true -> lkd (hp (st n)) x = true.
Proof. intros L M. destruct (st_ext_le m n L) as (_ & _ & _ & X). now apply X. Qed.

Lemma reach0_valid n x : reach (hp (st n)) 0 x -> valid (hp (st n)) x.
Proof. destruct (st_inv n) as [L O _ _]. intros R. eapply reach_valid; [exact L|exact O|exact R]. Qed.

(* the recorded heaps *)
Lemma gr_hs n : (n <= length sched)%nat -> length (g_hs (gr n)) = Datatypes.S n /\
  forall m, (m <= n)%nat -> nth m (g_hs (gr n)) [] = hp (st m).
Proof.
  induction n as [|n IH]; intros L.
  - split; [reflexivity|]. intros m Lm. assert (m = 0%nat) by lia. subst. reflexivity.
  - destruct (IH ltac:(lia)) as [A B]. rewrite gr_S by lia. cbn [gstep g_hs]. split.
    + rewrite app_length, A. simpl. lia.
    + intros m Lm. destruct (Nat.eq_dec m (Datatypes.S n)) as [->|N].
      * rewrite app_nth2 by lia. rewrite A, Nat.sub_diag. cbn [nth]. rewrite (st_S n) by lia. reflexivity.
      * rewrite app_nth1 by lia. apply B. lia.
Qed.

(* hindsight: a node reachable at moment m whose next pointer is read at moment n >= m had that next pointer
   while being reachable at some moment in between *)
Lemma hindsight m n x : (m <= n)%nat -> reach (hp (st m)) 0 x ->
  exists m', (m <= m' <= n)%nat /\ reach (hp (st m')) 0 x /\ nx (hp (st m')) x = nx (hp (st n)) x.
Proof.
  intros L R. replace n with (m + (n - m))%nat by lia. induction (n - m)%nat as [|d IH].
  - rewrite Nat.add_0_r. exists m. split; [lia|split; [exact R|reflexivity]].
  - destruct IH as (m' & Lm & Rm & Em).
    replace (m + Datatypes.S d)%nat with (Datatypes.S (m + d)) by lia.
    assert (ED : {nx (hp (st (Datatypes.S (m + d)))) x = nx (hp (st (m + d))) x} +
                 {nx (hp (st (Datatypes.S (m + d)))) x <> nx (hp (st (m + d))) x}).
    { decide equality. apply Nat.eq_dec. }
    destruct ED as [Eq|Ne].
    + exists m'. split; [lia|split; [exact Rm|congruence]].
    + exists (Datatypes.S (m + d)). split; [lia|split; [|reflexivity]].
      assert (V : valid (hp (st (m + d))) x) by (apply (st_valid m); [lia|now apply reach0_valid]).
      pose proof (s3_next _ _ (st_step3 (m + d)) x V Ne) as M.
      apply (i3_r1 _ (st_inv3 _)); [|exact M]. apply (st_valid (m + d)); [lia|exact V].
Qed.

(* the step that marks a node: it is unmarked before, marked and still reachable after *)
Lemma mark_step m n x : (m <= n)%nat -> valid (hp (st m)) x -> mkd (hp (st m)) x = false -> mkd (hp (st n)) x = true ->
  exists j, (m <= j < n)%nat /\ mkd (hp (st j)) x = false /\ mkd (hp (st (Datatypes.S j))) x = true /\
            reach (hp (st (Datatypes.S j))) 0 x /\ vl (hp (st (Datatypes.S j))) x = vl (hp (st j)) x.
Proof.
  intros L V M0. replace n with (m + (n - m))%nat by lia. induction (n - m)%nat as [|d IH].
  - rewrite Nat.add_0_r. congruence.
  - replace (m + Datatypes.S d)%nat with (Datatypes.S (m + d)) by lia. intros M1.
    destruct (mkd (hp (st (m + d))) x) eqn:Md.
    + destruct (IH eq_refl) as (j & Lj & X). exists j. split; [lia|exact X].
    + exists (m + d)%nat. split; [lia|split; [exact Md|split; [exact M1|]]].
      assert (Vd : valid (hp (st (m + d))) x) by (apply (st_valid m); [lia|exact V]).
      split.
      * apply (s3_reach _ _ (st_step3 (m + d))); [|exact Md]. now apply (i3_r1 _ (st_inv3 _)).
      * destruct (Nat.lt_ge_cases (m + d) (length sched)) as [Ls|Ls].
        -- rewrite (st_S _ Ls) in *. apply step_mark_value; auto. apply st_inv.
        -- unfold st in *. rewrite gr_ge in * by exact Ls. congruence.
Qed.

Lemma st_mark_linked m x : valid (hp (st m)) x -> mkd (hp (st m)) x = false -> mkd (hp (st (Datatypes.S m))) x = true ->
  lkd (hp (st m)) x = true.
Proof.
  intros V M0 M1. destruct (Nat.lt_ge_cases m (length sched)) as [Ls|Ls].
  - rewrite (st_S _ Ls) in M1. eapply step_mark_linked; eauto using st_inv, st_invR.
  - unfold st in *. rewrite gr_ge in M1 by exact Ls. congruence.
Qed.

(* once marked, the value of a node is frozen *)
Lemma st_frozen m n x : (m <= n)%nat -> mkd (hp (st m)) x = true -> vl (hp (st n)) x = vl (hp (st m)) x.
Proof.
  intros L M. replace n with (m + (n - m))%nat by lia. induction (n - m)%nat as [|d IH]; [now rewrite Nat.add_0_r|].
  replace (m + Datatypes.S d)%nat with (Datatypes.S (m + d)) by lia. rewrite <- IH.
  assert (Md : mkd (hp (st (m + d))) x = true) by (apply (st_marked m); [lia|exact M]).
  destruct (Nat.lt_ge_cases (m + d) (length sched)) as [Ls|Ls].
  - rewrite (st_S _ Ls).
    destruct (Z.eq_dec (vl (hp (step true (st (m + d)) (tidx (m + d)))) x) (vl (hp (st (m + d))) x)) as [E|E]; [exact E|].
    destruct (step_value_write (st (m + d)) (tidx (m + d)) x (st_inv _) (st_invR _) (marked_valid _ _ Md)) as [W _].
    destruct (W E) as (_ & X & _). congruence.
  - unfold st. now rewrite gr_ge by exact Ls.
Qed.

(* a node with key k that was reachable at moment m and is marked at moment n >= m: k was absent at some
   moment in between *)
Lemma absent_since_marked m n v k : (m <= n)%nat -> (1 <= v)%nat -> reach (hp (st m)) 0 v -> ky (hp (st m)) v = k ->
  mkd (hp (st n)) v = true -> exists j, (m <= j <= n)%nat /\ absentk k (hp (st j)).
Proof.
  intros L Pv R K M. pose proof (reach0_valid m v R) as V.
  destruct (mkd (hp (st m)) v) eqn:M0.
  - exists m. split; [lia|]. apply (absent_unique (st m) (st_inv m) (st_inv3 m) k v Pv R K).
    apply live_false. now right.
  - destruct (mark_step m n v L V M0 M) as (j & Lj & _ & Mj & Rj & _). exists (Datatypes.S j). split; [lia|].
    apply (absent_unique (st (Datatypes.S j)) (st_inv _) (st_inv3 _) k v Pv Rj).
    + rewrite (st_key m (Datatypes.S j) v); [exact K|lia|exact V].
    + apply live_false. now right.
Qed.
End Trace.
